import zlib, argparse, concurrent.futures as cf, json, os, queue, random, re, subprocess, sys, time

import kanirun
from kanirun import VERIF, WORK, REPO
import table

OUT = os.path.join(VERIF, "out")
KNOWN = os.path.join(VERIF, "known_findings.json")
PREFIX = {"incrate": "verif_kani::proofs::", "bcast": "proofs::", "codec": "proofs::", "smt": ""}


def sh(cmd, cwd=None, env=None, timeout=1800):
    p = subprocess.run(cmd, cwd=cwd, env=env, stdout=subprocess.PIPE, stderr=subprocess.STDOUT,
                       timeout=timeout, text=True)
    return p.returncode, p.stdout


# ---------------------------------------------------------------- native replay
_replay_built = {}


def build_replay(profile):
    """Build /verif/replay against /repo's working tree (guard on, no stubs)."""
    if profile in _replay_built:
        return _replay_built[profile]
    env = dict(kanirun.ENV, RUSTFLAGS="--cfg caio_foca_verif")
    tdir = os.path.join(WORK, "replay")
    cmd = ["cargo", "build", "--offline", "--quiet", "--target-dir", tdir]
    if profile == "release":
        cmd.append("--release")
    rc, out = sh(cmd, cwd=os.path.join(VERIF, "replay"), env=env)
    exe = os.path.join(tdir, "release" if profile == "release" else "debug", "foca-verif-replay")
    _replay_built[profile] = exe if rc == 0 and os.path.exists(exe) else None
    if _replay_built[profile] is None:
        sys.stderr.write("replay build failed (%s):\n%s\n" % (profile, out[-2000:]))
    return _replay_built[profile]


def replay_native(harness, tape, lenient=False):
    """-> list of per-profile results {profile,status,message?}"""
    res = []
    for profile in ("dev", "release"):
        exe = build_replay(profile)
        if not exe:
            res.append({"profile": profile, "status": "build-failed"})
            continue
        try:
            p = subprocess.run([exe, harness, tape.hex()] + (["--lenient"] if lenient else []), stdout=subprocess.PIPE, stderr=subprocess.PIPE,
                               timeout=120, text=True)
            line = p.stdout.strip().splitlines()[-1] if p.stdout.strip() else ""
            try:
                res.append(json.loads(line))
            except ValueError:
                res.append({"profile": profile, "status": "crash", "rc": p.returncode,
                            "message": (p.stderr or "")[-300:]})
        except subprocess.TimeoutExpired:
            res.append({"profile": profile, "status": "timeout"})
    return res


def load_known():
    try:
        return json.load(open(KNOWN))
    except (OSError, ValueError):
        return {"known": [], "fixed": []}


def match_known(prop, harness, message):
    for k in load_known().get("known", []):
        if k.get("property") == prop and k.get("harness") == harness and k.get("assertion") == message:
            return k
    return None


# ---------------------------------------------------------------- one harness
def decide_smt(prop, spec, tier):
    """Engine E4: MIR -> SMT-LIB (z3 + cvc5) for Member::can_change."""
    t0 = time.time()
    build_replay("dev")  # translation validation uses the native oracle
    try:
        p = subprocess.run([sys.executable, os.path.join(VERIF, "smt", "mir2smt.py"), "--repo", REPO, "--group", spec.get("group", "can_change")], stdout=subprocess.PIPE,
                           stderr=subprocess.PIPE, text=True, timeout=spec.get("timeout_q", 900))
        d = json.loads(p.stdout.strip().splitlines()[-1])
        rc = p.returncode
    except (subprocess.TimeoutExpired, ValueError, IndexError) as e:
        d, rc = {"status": "inconclusive", "detail": str(e), "queries": []}, 2
    def pre(n):
        if spec.get("group") == "gates":
            return ("c16: " if n.startswith("allow_custom") else "c07+c15: ") + n
        return "c01: " + n
    checks = [{"name": "e4." + str(i), "status": "SUCCESS" if q.get("ok") else "FAILURE", "desc": pre(q["name"]), "loc": "", "func": None}
              for i, q in enumerate(d.get("queries", []))]
    status = {0: "PASS", 1: "FAIL"}.get(rc, "INCONCLUSIVE")
    detail = " ;; ".join(pre(n) for n in d.get("violated", [])) if rc == 1 else (d.get("detail", "") or "; ".join(d.get("inconclusive", [])))
    r = {"harness": spec["name"], "name": spec["name"], "engine": "smt", "status": status, "detail": detail, "wall_s": round(time.time() - t0, 2),
         "checks": checks, "stats": {"solver_s": round(sum(a["s"] for q in d.get("queries", []) for a in q["answers"].values()), 3),
                                     "solver_calls": 2 * len(d.get("queries", [])), "stubs": []},
         "log": "", "cmd": "python3 smt/mir2smt.py --repo " + REPO, "rc": rc, "spec": spec, "replays": [], "e4": d}
    if rc == 1:
        r["replays"] = [{"class": "assertion", "desc": pre(n), "tape": "", "native": []} for n in d.get("violated", [])]
    return r


def decide(prop, spec, slot_q, tier):
    if spec["engine"] == "smt":
        return decide_smt(prop, spec, tier)
    engine, name = spec["engine"], spec["name"]
    full = PREFIX[engine] + name
    timeout = spec.get("timeout_t" if tier == "thorough" else "timeout_q", 600 if tier == "quick" else 1500)
    slot = slot_q.get()
    try:
        r = kanirun.run_harness(engine, full, slot, timeout, mem_gb=spec.get("mem_gb", 24),
                                extra_cbmc=spec.get("cbmc", ()), unwindset=spec.get("unwindset", ()))
        r["name"] = name
        r["spec"] = spec
        r["replays"] = []
        if r["status"] == "FAIL":
            # second run: same query with counterexample extraction
            p = kanirun.run_harness(engine, full, slot, timeout * 2 + 120, mem_gb=spec.get("mem_gb", 24),
                                    playback=True, extra_cbmc=spec.get("cbmc", ()), unwindset=spec.get("unwindset", ()))
            r["playback_status"] = p["status"]
            seen = set()
            for cls, desc, tape in p.get("tapes", []):
                if tape in seen:
                    continue
                seen.add(tape)
                if engine != "incrate":
                    r["replays"].append({"class": cls, "desc": desc, "tape": tape.hex(), "native": []})
                    continue
                nat = replay_native(name, tape)
                r["replays"].append({"class": cls, "desc": desc, "tape": tape.hex(), "native": nat})
            reproduced = any(n.get("status") == "violated" for x in r["replays"] for n in x["native"])
            if engine == "incrate" and not reproduced:
                # Kani's playback has no test for checks that fail inside library code
                # (e.g. core::panicking::assert_failed from a debug_assert_eq!): take the
                # values from CBMC's raw trace of that very property instead.
                failed = [c for c in r["checks"] if c["status"] == "FAILURE" and ".unwind." not in c["name"]]
                for c in failed[:3]:
                    t = kanirun.run_harness(engine, full, slot, timeout * 2 + 120, mem_gb=spec.get("mem_gb", 24), trace=True,
                                            extra_cbmc=list(spec.get("cbmc", ())) + ["--property", c["name"]],
                                            unwindset=spec.get("unwindset", ()))
                    tape = t.get("trace_tape", b"")
                    if tape and tape not in seen:
                        seen.add(tape)
                        nat = replay_native(name, tape)
                        mode = "trace"
                        if not any(n.get("status") == "violated" for n in nat):
                            # a raw trace may omit inputs the failing path does not depend on
                            nat = replay_native(name, tape, lenient=True)
                            mode = "trace-lenient"
                        r["replays"].append({"class": mode, "desc": c["desc"] + " [" + c["name"] + "]", "tape": tape.hex(), "native": nat})
        return r
    finally:
        slot_q.put(slot)


FOCA_FN = re.compile(r"^(?:foca::)?((?:<[^>]*>|[A-Za-z_][\w]*)(?:::(?:<[^>]*>|[\w{}#]+))*)")


def encoded_functions(checks):
    fns = set()
    for c in checks:
        f = c.get("func")
        if not f:
            continue
        if "verif_kani" in f or "verif_hook" in f or f.startswith("kani::") or f.startswith("__") or "proofs::" in f:
            continue
        if re.match(r"^<?(alloc|core|std|bytes|rand|rand_core|postcard|bincode|serde)::", f) or " as core::" in f or " as alloc::" in f:
            continue
        if (c["loc"].startswith("src/") or "/repo/" in c["loc"] or "repo/src/" in c["loc"]) and ":0:0" not in c["loc"]:
            fns.add(re.sub(r"::<.*$", "", f))
    return sorted(fns)


def summarize(r):
    checks = r["checks"]
    oblig = [c for c in checks if re.match(r"^[a-z]+\d*[a-z_0-9]*: ", c["desc"]) and ".cover." not in c["name"]]
    covers = [c for c in checks if ".cover." in c["name"]]
    return {
        "harness": r["name"], "engine": r["engine"], "status": r["status"], "detail": r["detail"],
        "bounds": r["spec"].get("bounds", "") or "see coverage.bounds",
        "entry": r["spec"].get("entry", "") or table.ENTRY.get(r["name"].split("_")[0], ""),
        "functions_with_checks": encoded_functions(checks)[:60],
        "queries": len(checks),
        "queries_success": sum(1 for c in checks if c["status"] == "SUCCESS"),
        "obligation_assertions": sorted(set(c["desc"] for c in oblig)),
        "covers_satisfied": sorted(set(c["desc"] for c in covers if c["status"] == "SATISFIED")),
        "covers_total": len(covers),
        "program_steps": r["stats"].get("program_steps"),
        "variables": r["stats"].get("variables"),
        "clauses": r["stats"].get("clauses"),
        "solver_calls": r["stats"].get("solver_calls"),
        "solver_s": r["stats"].get("solver_s"),
        "symex_s": r["stats"].get("symex_s"),
        "wall_s": r["wall_s"],
        "stubs": r["stats"].get("stubs", []),
        "per_loop_unwind": r.get("unwindset_rules", []),
        "e4": r.get("e4"),
        "cmd": r["cmd"],
    }


def main(argv):
    ap = argparse.ArgumentParser()
    ap.add_argument("prop")
    ap.add_argument("--tier", default=os.environ.get("VERIF_TIER", "quick"), choices=["quick", "thorough"])
    ap.add_argument("--replay")
    ap.add_argument("--only", action="append")
    ap.add_argument("--jobs", type=int, default=0)
    a = ap.parse_args(argv)
    prop = a.prop
    if prop not in table.PROPS:
        print("unknown or not-applicable property", prop)
        return 2
    if a.replay:
        return do_replay(prop, a.replay)
    seed = int(os.environ.get("VERIF_SEED", "0") or 0)
    P = table.PROPS[prop]
    specs = [h for h in P["harnesses"] if a.tier == "thorough" or h.get("tier", "quick") == "quick"]
    if a.only:
        specs = [h for h in specs if h["name"] in a.only]
    random.Random(seed).shuffle(specs)
    # longest first
    specs.sort(key=lambda h: -h.get("cost", 30))
    jobs = a.jobs or int(os.environ.get("VERIF_JOBS", "0") or 0) or (8 if a.tier == "quick" else 6)
    jobs = max(1, min(jobs, len(specs)))
    slot_q = queue.Queue()
    base = int(os.environ.get("VERIF_SLOT_BASE", "0") or 0)  # lets two runs use disjoint target directories
    for i in range(jobs):
        slot_q.put(base + i)
    t0 = time.time()
    results = []
    # harnesses that are allowed more than the default memory run alone, after the pool
    heavy = [h for h in specs if h.get("mem_gb", 24) > 24]
    normal = [h for h in specs if h not in heavy]

    def report(r):
        results.append(r)
        sys.stderr.write("[%s] %-34s %-12s %6.1fs %s\n" % (prop, r["name"], r["status"], r["wall_s"], r["detail"][:150]))

    with cf.ThreadPoolExecutor(max_workers=jobs) as ex:
        futs = [ex.submit(decide, prop, h, slot_q, a.tier) for h in normal]
        for f in cf.as_completed(futs):
            report(f.result())
    for h in heavy:
        report(decide(prop, h, slot_q, a.tier))
    results.sort(key=lambda r: r["name"])
    wall = time.time() - t0

    violations, known_hits, inconclusive, foreign, undecided = [], [], [], [], []
    os.makedirs(os.path.join(OUT, prop), exist_ok=True)

    def owner(msg):
        """Property an assertion text belongs to: 'cNN: ...' -> CNN; anything else
        (Rust panics, overflow, index, debug_assert inside foca) -> C06."""
        m = re.match(r"^c(\d\d)((?:\+c\d\d)*): ", msg)
        if m:
            return ["C" + m.group(1)] + ["C" + x for x in re.findall(r"\+c(\d\d)", m.group(2))]
        if msg.startswith("harness:"):
            return ["HARNESS"]
        return ["C06"]

    for r in results:
        if r["status"] == "INCONCLUSIVE":
            if r["detail"].startswith("timeout") or r["detail"].startswith("out of memory"):
                # resource exhaustion: nothing was explored by this harness, nothing is claimed for it
                undecided.append("%s: %s" % (r["name"], r["detail"]))
            else:
                inconclusive.append("%s: %s" % (r["name"], r["detail"]))
        if r["status"] != "FAIL":
            continue
        solver_msgs = [m for m in r["detail"].split(" ;; ") if m]
        if r["engine"] != "incrate":
            # external engines run foca's code without stubs of its logic; the
            # solver's counterexample is reported with its value tape.
            tapes = {x["desc"]: x["tape"] for x in r["replays"] if x["class"] != "cover"}
            reproduced = [{"desc": d, "tape": tapes.get(d, ""), "message": d} for d in solver_msgs]
        else:
            reproduced = []
            for x in r["replays"]:
                msgs = [n.get("message", "") for n in x["native"] if n.get("status") == "violated"]
                if msgs:
                    reproduced.append({"desc": x["desc"], "tape": x["tape"], "message": msgs[0], "native": x["native"]})
        owns = P.get("owns", [prop])
        mine_solver = [m for m in solver_msgs if prop == "DEV" or set(owner(m)) & set(owns)]
        if not reproduced:
            json.dump(r["replays"], open(os.path.join(OUT, prop, r["name"] + ".attempts.json"), "w"), indent=1)
            if mine_solver or any("HARNESS" in owner(m) for m in solver_msgs):
                inconclusive.append("%s: solver counterexample did not reproduce natively (%s)" % (r["name"], r["detail"]))
            else:
                foreign.append("%s: %s" % (r["name"], r["detail"]))
            continue
        by_msg = {}
        for x in reproduced:
            by_msg.setdefault(x["message"], x)
        hit = False
        for msg, x in sorted(by_msg.items()):
            if prop != "DEV" and not (set(owner(msg)) & set(owns)):
                foreign.append("%s: %s" % (r["name"], msg))
                continue
            hit = True
            k = match_known(prop, r["name"], msg)
            path = os.path.join(OUT, prop, "%s.%d.replay.json" % (r["name"], zlib.crc32(msg.encode()) % 100000))
            json.dump({"property": prop, "harness": r["name"], "engine": r["engine"], "assertion": msg,
                       "tape": x["tape"], "native": x.get("native", []), "solver_failed_checks": r["detail"],
                       "how": "bin/check %s --replay %s" % (prop, path)}, open(path, "w"), indent=1)
            if k:
                known_hits.append((k, msg))
            else:
                violations.append((path, r["name"], msg))
        if not hit and mine_solver:
            # the solver refuted an obligation of this property but the native run
            # stopped at an earlier obligation of another property
            inconclusive.append("%s: obligation refuted by the solver, native replay stops earlier at another property's obligation (%s)" % (r["name"], "; ".join(mine_solver)))

    for k, msg in known_hits:
        print("KNOWN-FINDING: property=%s %s" % (prop, k.get("what", msg)))
    for path, name, msg in violations:
        print("VIOLATION property=%s replay=%s" % (prop, path))
        print("  harness=%s assertion=%s" % (name, msg))
    for x in inconclusive:
        print("INCONCLUSIVE property=%s %s" % (prop, x))
    for x in undecided:
        print("UNDECIDED property=%s harness ran out of time/memory, nothing claimed for it: %s" % (prop, x))
    for x in foreign:
        print("NOTE property=%s obligation of another property failed in a shared harness (reported by that property's check): %s" % (prop, x))

    aux = {}
    if prop == "C17":
        # auxiliary (not deciding): sources of nondeterminism other than the RNG parameter
        pats = [r"\bstatic\s+mut\b", r"thread_local!", r"Instant::now", r"SystemTime", r"\bHashMap\b", r"\bHashSet\b", r"RandomState", r"std::env", r"\bstatic\s+\w+\s*:.*(Atomic|Mutex|Cell)"]
        hits = []
        srcdir = os.path.join(REPO, "src")
        for root, _d, files in os.walk(srcdir):
            for fn in files:
                if not fn.endswith(".rs") or fn == "testing.rs":
                    continue
                text = open(os.path.join(root, fn), errors="replace").read()
                text = text.split("#[cfg(test)]\nmod tests")[0]
                for pat in pats:
                    for m in re.finditer(pat, text):
                        hits.append("%s: %s" % (os.path.relpath(os.path.join(root, fn), REPO), m.group(0)))
        aux["nondeterminism_scan"] = {"patterns": pats, "hits": hits}
        for h in hits:
            print("NOTE property=C17 structural scan: possible source of nondeterminism outside the RNG parameter: %s" % h)
    samples = [summarize(r) for r in results]
    evaluations = sum(s["queries"] for s in samples)
    distinct = len(set(d for s in samples if s["status"] in ("PASS", "FAIL") for d in s["obligation_assertions"] + s["covers_satisfied"]))
    ev = {
        "property_id": prop, "tier": a.tier, "seed": seed, "level": P["level"],
        "coverage": {
            "evaluations": evaluations,
            "distinct_nontrivial": distinct,
            "rule": "evaluations = solver-decided checks (CBMC properties: obligation assertions, Rust panic/overflow/index "
                    "checks, reachability witnesses) over all harnesses of this run; distinct_nontrivial = distinct obligation "
                    "assertions and satisfied reachability witnesses (by text) in harnesses that reached a verdict - auto-generated "
                    "checks are not counted.",
            "samples": samples,
            "exhaustive": False,
            "harnesses_run": len(samples),
            "harnesses_pass": sum(1 for s in samples if s["status"] == "PASS"),
            "solver_time_s": round(sum((s["solver_s"] or 0) for s in samples), 2),
            "explanation": P.get("explanation", ""),
            "bounds": P.get("bounds", ""),
            "outside_claim": P.get("outside", ""),
            "replayed_counterexamples": sum(len(r["replays"]) for r in results),
            "known_findings_hit": [k.get("what", "") for k, _ in known_hits],
            "inconclusive": inconclusive,
            "undecided_resource_exhaustion": undecided,
            "other_property_failures_seen": foreign,
            "auxiliary": aux,
        },
        "assumptions": P.get("assumptions", []) + table.COMMON_ASSUMPTIONS,
        "wall_s": round(wall, 2),
        "violations": len(violations),
    }
    os.makedirs(os.path.join(VERIF, "evidence"), exist_ok=True)
    json.dump(ev, open(os.path.join(VERIF, "evidence", prop + ".json"), "w"), indent=1)
    print("%s tier=%s harnesses=%d pass=%d violations=%d known=%d inconclusive=%d undecided=%d wall=%.0fs" % (
        prop, a.tier, len(samples), ev["coverage"]["harnesses_pass"], len(violations), len(known_hits), len(inconclusive), len(undecided), wall))
    if violations:
        return 1
    if inconclusive or not any(x["status"] == "PASS" for x in samples):
        return 2
    return 0


def do_replay(prop, path):
    d = json.load(open(path))
    if d.get("engine", "incrate") != "incrate" or not d.get("tape"):
        print("replay file has no native tape; re-run: bin/check %s --only %s" % (prop, d["harness"]))
        return 2
    nat = replay_native(d["harness"], bytes.fromhex(d["tape"]))
    if not any(n.get("status") == "violated" for n in nat):
        nat = replay_native(d["harness"], bytes.fromhex(d["tape"]), lenient=True)
    print(json.dumps(nat))
    if any(n.get("status") == "violated" for n in nat):
        print("VIOLATION property=%s replay=%s" % (prop, path))
        return 1
    return 0
