"""Run one Kani harness and parse CBMC's verdicts. stdlib only."""
import os, re, resource, signal, subprocess, time

VERIF = os.path.dirname(os.path.dirname(os.path.abspath(__file__)))
WORK = os.path.join(VERIF, ".work")
REPO = os.environ.get("VERIF_REPO", "/repo")

ENGINES = {
    # name: (cwd, extra cargo-kani args)
    "incrate": (REPO, ["-Z", "stubbing"]),
    "bcast": (os.path.join(VERIF, "kani", "bcast"), []),
    "codec": (os.path.join(VERIF, "kani", "codec"), ["-Z", "stubbing"]),
}

COMMON = ["-Z", "unstable-options", "--no-memory-safety-checks", "--no-assertion-reach-checks"]
CBMC_ARGS = ["--cbmc-args", "--max-field-sensitivity-array-size", "1024"]

ENV = dict(os.environ, CARGO_NET_OFFLINE="true", CARGO_TERM_COLOR="never")
ENV.pop("RUSTFLAGS", None)


def _limit(mem_gb):
    def f():
        os.setsid()
        if mem_gb:
            b = int(mem_gb * (1 << 30))
            resource.setrlimit(resource.RLIMIT_AS, (b, b))
    return f


def run_proc(cmd, cwd, timeout, mem_gb, log_path, env=ENV):
    t0 = time.time()
    with open(log_path, "w") as log:
        p = subprocess.Popen(cmd, cwd=cwd, stdout=log, stderr=subprocess.STDOUT,
                             env=env, preexec_fn=_limit(mem_gb))
        try:
            rc = p.wait(timeout=timeout)
            timed_out = False
        except subprocess.TimeoutExpired:
            timed_out = True
            try:
                os.killpg(p.pid, signal.SIGKILL)
            except ProcessLookupError:
                pass
            p.wait()
            rc = -9
    return rc, timed_out, time.time() - t0


CHECK_RE = re.compile(
    r"^Check (\d+): (.+)\n\t - Status: (\w+)\n\t - Description: \"(.*)\"\n(?:\t - Location: (.*)\n)?",
    re.M)


def parse_log(text):
    """Extract per-check verdicts and solver statistics from a kani/cbmc log."""
    checks = []
    for m in CHECK_RE.finditer(text):
        num, name, status, desc, loc = m.groups()
        func = None
        if loc and " in function " in loc:
            func = loc.split(" in function ", 1)[1].strip()
        checks.append({"name": name, "status": status, "desc": desc, "loc": loc or "", "func": func})
    stats = {}
    m = re.findall(r"size of program expression: (\d+) steps", text)
    if m:
        stats["program_steps"] = int(m[-1])
    m = re.findall(r"^(\d+) variables, (\d+) clauses", text, re.M)
    if m:
        stats["variables"] = int(m[0][0])
        stats["clauses"] = int(m[0][1])
    stats["solver_s"] = round(sum(float(x) for x in re.findall(r"Runtime Solver: ([\d.eE+-]+)s", text)), 3)
    stats["symex_s"] = round(sum(float(x) for x in re.findall(r"Runtime Symex: ([\d.eE+-]+)s", text)), 3)
    stats["solver_calls"] = len(re.findall(r"Runtime Solver: ", text))
    m = re.search(r"Verification Time: ([\d.]+)s", text)
    if m:
        stats["verification_s"] = float(m.group(1))
    stats["stubs"] = sorted(set(re.findall(r"- Stub: (.*)", text)))
    if "VERIFICATION:- SUCCESSFUL" in text:
        verdict = "SUCCESSFUL"
    elif "VERIFICATION:- FAILED" in text:
        verdict = "FAILED"
    else:
        verdict = "NONE"
    return checks, stats, verdict


def classify(checks, verdict, timed_out, rc, text):
    """-> (status, details). status in PASS / FAIL / INCONCLUSIVE."""
    if timed_out:
        return "INCONCLUSIVE", "timeout"
    failed = [c for c in checks if c["status"] == "FAILURE"]
    unwind = [c for c in failed if "unwinding assertion" in c["desc"] or ".unwind." in c["name"] or ".recursion" in c["name"]]
    real = [c for c in failed if c not in unwind]
    covers = [c for c in checks if ".cover." in c["name"]]
    unsat = [c for c in covers if c["status"] != "SATISFIED"]
    if verdict == "FAILED" and not failed and ("out of memory" in text.lower() or "CBMC failed" in text):
        return "INCONCLUSIVE", "out of memory / solver error"
    if verdict == "NONE":
        if "Status: ERROR" in text or "out of memory" in text.lower() or "solver ran out" in text.lower() or "std::bad_alloc" in text or "Killed" in text:
            return "INCONCLUSIVE", "out of memory / solver error"
        return "INCONCLUSIVE", "no verdict (rc=%s)" % rc
    if unwind:
        return "INCONCLUSIVE", "unwinding bound too small: " + unwind[0]["loc"]
    if real:
        return "FAIL", " ;; ".join(sorted(set(c["desc"] for c in real)))
    if any(c["status"] in ("UNDETERMINED", "ERROR") for c in checks):
        if "ran out of memory" in text.lower() or "out of memory" in text.lower():
            return "INCONCLUSIVE", "out of memory (solver)"
        return "INCONCLUSIVE", "undetermined checks"
    if unsat:
        return "INCONCLUSIVE", "vacuity: cover not satisfied: " + "; ".join(c["desc"] for c in unsat)
    if verdict == "SUCCESSFUL":
        return "PASS", ""
    return "INCONCLUSIVE", "verdict " + verdict


TAPE_RE = re.compile(
    r"/// Check for `(\w+)`: \"([^\n]*)\"\n(?:///[^\n]*\n|[ \t]*\n)*#\[test\]\nfn (\w+)\(\) \{\n\s*let concrete_vals: Vec<Vec<u8>> = vec!\[\n((?:[^\n]*\n)*?)\s*\];")


def parse_tapes(text):
    """Concrete playback blocks -> [(class, description, bytes)] (draw order, LE)."""
    out = []
    for m in TAPE_RE.finditer(text):
        cls, desc, _fn, body = m.groups()
        tape = bytearray()
        for v in re.findall(r"vec!\[([\d, ]*)\]", body):
            for x in v.split(","):
                x = x.strip()
                if x:
                    tape.append(int(x))
        out.append((cls, desc, bytes(tape)))
    return out


def kani_cmd(engine, harness, target_dir, playback=False, extra_cbmc=(), only_codegen=False, trace=False):
    cwd, eng_args = ENGINES[engine]
    cmd = ["cargo", "kani", "--harness", harness, "--exact", "--target-dir", target_dir] + eng_args + COMMON
    if only_codegen:
        return cmd + ["--only-codegen"], cwd
    if playback:
        cmd += ["-Z", "concrete-playback", "--concrete-playback=print"]
    if trace:
        cmd += ["--output-format", "old"]
    cmd += CBMC_ARGS + list(extra_cbmc)
    if trace:
        cmd += ["--trace", "--stop-on-fail"]
    return cmd, cwd


ANY_RE = re.compile(r"function kani::any_raw_internal::<(\w+)> line \d+ thread \d+\n-+\n\s+goto_symex\$\$return_value\$\$\S*any_raw_internal\S*=\S+ \(([01 ]+)\)")


def parse_trace_tape(text):
    """Raw CBMC trace (--output-format old --trace): the values returned by
    kani::any_raw_internal, in execution order, as a little-endian byte tape."""
    tape = bytearray()
    n = 0
    for ty, bits in ANY_RE.findall(text):
        groups = bits.split()
        val = bytes(int(g, 2) for g in groups)  # most significant byte first
        tape += val[::-1]
        n += 1
    return bytes(tape), n


# Per-loop unwinding bounds (CBMC --unwindset), matched by regex on the demangled
# function name that `goto-instrument --show-loops` prints. Loop ids are looked up
# in the freshly generated goto binary on every run, so they follow /repo's source.
# A bound that is too small fails its unwinding assertion => INCONCLUSIVE, never PASS.
DEFAULT_UNWINDSET = {
    "bcast": [
        # at most 3 entries in the backlog: 3 pops + the one that finds it empty
        (r"Broadcasts::<.*>::fill(_with_len_prefix)?::<", 5),
    ],
    "incrate": [
        (r"bytes::BufMut>::put_slice", 3),
        (r"::choose_and_send::", 3),
        (r"::announce_to_down::", 3),
        (r"::broadcast::<", 4),
        (r"Foca::<.*>::handle_timer::", 4),
        (r"verif_stub_fill", 4),
        (r"kit::LogRt as .*Runtime.*>::send_to", 38),
        # rand's general-iterator sampling path is dead code for foca's exact-size
        # ranges; CBMC cannot prune it syntactically. Bound 1 + unwinding assertion.
        (r"coin_flipper::CoinFlipper", 1),
        (r"::overflowing_pow", 1),
        (r"IteratorRandom>::choose", 1),
    ],
}

LOOP_RE = re.compile(r"^Loop (\S+):\n\s+file .*? function (.*)$", re.M)


def find_goto_binary(target_dir, harness):
    short = harness.split("::")[-1]
    suffix = "%d%s.out" % (len(short), short)
    best, best_m = None, -1
    for root, _d, files in os.walk(os.path.join(target_dir, "kani")):
        for fn in files:
            if fn.endswith(suffix) and not fn.endswith(".symtab.out"):
                p = os.path.join(root, fn)
                m = os.path.getmtime(p)
                if m > best_m:
                    best, best_m = p, m
    return best


def compute_unwindset(engine, harness, target_dir, rules, timeout, log_path):
    """-> (unwindset string or None, note)."""
    if not rules:
        return None, ""
    cmd, cwd = kani_cmd(engine, harness, target_dir, only_codegen=True)
    rc, timed_out, _ = run_proc(cmd, cwd, timeout, None, log_path + ".codegen")
    if rc != 0:
        return None, "codegen failed"
    gb = find_goto_binary(target_dir, harness)
    if not gb:
        return None, "goto binary not found"
    p = subprocess.run(["goto-instrument", "--show-loops", gb], stdout=subprocess.PIPE, stderr=subprocess.DEVNULL, text=True)
    items = []
    for loop_id, func in LOOP_RE.findall(p.stdout):
        for rx, bound in rules:
            if re.search(rx, func):
                items.append("%s:%d" % (loop_id, bound))
                break
    return (",".join(items) if items else None), "%d loops bounded" % len(items)


def run_harness(engine, harness, slot, timeout, mem_gb=24, playback=False, extra_cbmc=(), unwindset=(), trace=False):
    os.makedirs(os.path.join(WORK, "logs"), exist_ok=True)
    target_dir = os.path.join(WORK, "kt-%s-%d" % (engine, slot))
    log_path = os.path.join(WORK, "logs", "%s%s.log" % (harness, ".playback" if playback else (".trace" if trace else "")))
    t_start = time.time()
    rules = list(DEFAULT_UNWINDSET.get(engine, [])) + list(unwindset)
    uw, uw_note = compute_unwindset(engine, harness, target_dir, rules, 900, log_path)
    extra = list(extra_cbmc)
    if uw:
        extra += ["--unwindset", uw]
    cmd, cwd = kani_cmd(engine, harness, target_dir, playback, extra, trace=trace)
    rc, timed_out, wall = run_proc(cmd, cwd, timeout, mem_gb, log_path)
    wall = time.time() - t_start
    text = open(log_path, errors="replace").read()
    checks, stats, verdict = parse_log(text)
    status, detail = classify(checks, verdict, timed_out, rc, text)
    res = {"harness": harness, "engine": engine, "status": status, "detail": detail, "wall_s": round(wall, 2),
           "checks": checks, "stats": stats, "log": log_path, "cmd": " ".join(cmd), "rc": rc, "unwindset_rules": ["%s:%d" % r for r in rules]}
    if playback:
        res["tapes"] = parse_tapes(text)
    if trace:
        tape, n = parse_trace_tape(text)
        m = re.search(r"Violated property:\n\s+file (\S+) function (.*?) line (\d+).*?\n\s+(.*)\n", text)
        res["trace_tape"] = tape
        res["trace_values"] = n
        res["trace_violated"] = (m.group(4).strip() + " @ " + m.group(1) + ":" + m.group(3)) if m else ""
    return res
