"""Harness table: property -> harness specs. Bounds are restated from the harness sources."""

COMMON_ASSUMPTIONS = [
    "Identity/Codec/Runtime/BroadcastHandler honour their documented contracts (kit types: total codec, strict total order per address)",
    "memory-safety/pointer checks off (foca is #![forbid(unsafe_code)]); Rust panics, overflow, indexing, debug_assert stay checked",
    "allocation never fails",
    "trusted: rustc + Kani 0.68 codegen, CBMC 6.11, CaDiCaL; std/bytes/rand internals",
]

STUBS = "Broadcasts::add_or_replace -> no-op (additions observed via codec/handler logs); Broadcasts::fill/fill_with_len_prefix -> read-only greedy pass over the real pre-populated heap (contracts discharged in engine bcast)"


def H(name, engine="incrate", tier="quick", cost=30, **kw):
    d = dict(name=name, engine=engine, tier=tier, cost=cost)
    d.update(kw)
    return d


PROPS = {
    "C11": {
        "level": "model_checking",
        "bounds": "K<=2 membership records (all field values symbolic: u8 addr/generation, full u16 incarnation), probe state arbitrary under Inv, RNG tape 8 draws, max_packet_size 32",
        "outside": "memberships > 3 records; token wrap-around (256 epochs)",
        "assumptions": [STUBS, "timers named in the obligation are ones an instance can have scheduled itself (identity not newer than the record; current-token suspicion timers exist only while Connected)"],
        "harnesses": [
            H("c11_timeout_iff", cost=40, entry="Foca::handle_timer(ChangeSuspectToDown)", bounds="K=2, unwind 10"),
        ],
    },
}

DEV = ["c13_stale_probe","c13_stale_indirect","c13_stale_suspect","c13_stale_announce","c13_stale_gossip","c13_stale_announce_down",
       "t_probe_k2","t_probe_k3","t_indirect_k2","t_indirect_k3","t_remove","t_announce","t_gossip","t_announce_down"]
PROPS["DEV"] = {"level": "model_checking", "harnesses": [H(n) for n in DEV]}

HOOK_COMMITS = ["2dd5aa0"]

_MULTI = ("whole-cluster, many-period schedule property with no closed chain of local step obligations; multi-instance bounded "
          "model checking of the real code measured out of reach (2 instances x 6 deliveries: > 20 min in symbolic execution, > 17 GB)")
NOT_APPLICABLE = {
    "C02": _MULTI,
    "C03": _MULTI,
    "C05": _MULTI,
}
for _p in ["C%02d" % i for i in range(1, 21)]:
    if _p not in PROPS and _p not in NOT_APPLICABLE:
        NOT_APPLICABLE[_p] = "check not built yet in this revision (planned: DESIGN.md §4)"
