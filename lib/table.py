"""Harness table: property -> harness specs. Bounds are restated from the harness sources."""

COMMON_ASSUMPTIONS = [
    "Identity/Codec/Runtime/BroadcastHandler honour their documented contracts (kit types: total codec, strict total order per address)",
    "memory-safety/pointer checks off (foca is #![forbid(unsafe_code)]); Rust panics, overflow, indexing, debug_assert stay checked",
    "allocation never fails",
    "trusted: rustc + Kani 0.68 codegen, CBMC 6.11, CaDiCaL; std/bytes/rand internals",
]

STUBS = "Broadcasts::add_or_replace -> no-op (additions observed via codec/handler logs); Broadcasts::fill/fill_with_len_prefix -> read-only greedy pass over the real pre-populated heap (contracts discharged in engine bcast)"


def H(name, engine="incrate", tier="quick", cost=30, **kw):
    d = dict(name=name, engine=engine, tier=tier, cost=cost)
    d.update(kw)
    return d


Q, T = "quick", "thorough"
BC = dict(engine="bcast")
CD = dict(engine="codec")

BOUNDS_E1 = ("K membership records as named per harness (k1/k2/k3; default 2), every field symbolic (u8 address and generation, full u16 "
             "incarnation, 3 states), identity/incarnation/token/connection state/probe state/cursor/config flags symbolic under Inv; "
             "RNG = tape of 8 draws covering every outcome of every range <= 256; max_packet_size concrete per harness (32 unless named); "
             "loop bounds: global unwind 7 plus per-loop bounds listed per sample, all guarded by unwinding assertions")
OUT_E1 = "memberships > 3 records, > 2 indirect helpers, > 2 pending backlog entries, packets > 36 bytes, token wrap-around (256 epochs)"

PROPS = {
    "C01": {
        "level": "model_checking",
        "technique": "Kani/CBMC bounded model checking of Members::apply / Foca::apply_many / handle_data on symbolic states; MIR->SMT-LIB2 (z3 + cvc5) for Member::can_change; native replay of counterexamples",
        "bounds": "Members-level laws: arbitrary base record (or none), 2 arbitrary updates for one address (all u8 generations, all u16 incarnations, 3 states), symbolic insertion RNG; Foca level: " + BOUNDS_E1,
        "outside": "composition over sequences longer than 2 is by the prose argument of DESIGN §4 C01 (commute + idempotent + frame); " + OUT_E1,
        "assumptions": [STUBS],
        "harnesses": [
            H("c01_commute", tier=Q, cost=200, timeout_q=900, entry="Members::apply x2 in both orders", bounds="1 address, known record + 2 updates"),
            H("c01_commute_new", tier=Q, cost=200, timeout_q=900, entry="Members::apply x2 in both orders", bounds="1 address, no record + 2 updates"),
            H("c01_idempotent", cost=130, entry="Members::apply twice"),
            H("c01_monotone", cost=15, entry="Members::apply / Member::change_state / can_change"),
            H("c01_frame", cost=100, entry="Members::apply with a second record"),
            H("c01_exchange", cost=30, entry="Members::apply both directions"),
            H("e4_can_change_smt", engine="smt", cost=100, entry="Member::can_change (MIR -> SMT-LIB2, z3 + cvc5)", bounds="all u16 incarnations, 3 states; 6 queries x 2 solvers; translation validated on 72 points"),
            H("a_apply1_k1", cost=120, entry="Foca::apply_many(once(u))"),
            H("d_gossip_upd_never", cost=90, entry="Foca::handle_data(Gossip + 1 update)", bounds="no prior record, fan-out 1, non-renewable identity; every field of sender, header and update symbolic"),
            H("a_apply1_k2", tier=T, cost=220, entry="Foca::apply_many(once(u))"),
            H("a_apply1_k3", tier=T, cost=400, entry="Foca::apply_many(once(u))"),
            H("a_own_state_noop", tier=T, cost=300, entry="Foca::apply_many(iter_membership_state())"),
            H("d_gossip_upd", tier=T, cost=300, entry="Foca::handle_data(Gossip + 1 update)"),
            H("d_ack", tier=T, cost=70, entry="Foca::handle_data(Ack): header-liveness"),
        ],
    },
    "C04": {
        "level": "other",
        "owns": ["C04", "C10", "C11", "C12", "C01", "C15", "C14"],
        "explanation": ("Cluster-level statement is not solver-decidable here (multi-instance BMC out of reach). Decided: every link of the "
                        "refutation chain as a step obligation on one real instance for all values within the bounds: loss is silent and a "
                        "failed round only suspects (t_probe), the suspect refutes with a higher incarnation in every datagram of the step "
                        "(d_*_upd, a_apply1), any accepted datagram with a higher header incarnation clears the suspicion (d_ack/d_ping), a "
                        "refuted/stale timeout has no effect at all (c11_timeout_iff), indirect probing absorbs the loss (t_indirect, d_fwd_ack). "
                        "The composition over time is a prose argument (DESIGN §4 C04), not solver output."),
        "bounds": BOUNDS_E1, "outside": "timing of dissemination for N > 2 (cluster-level); " + OUT_E1,
        "assumptions": [STUBS],
        "harnesses": [
            H("c11_timeout_iff", cost=40), H("t_probe_k2", cost=60), H("d_ack", cost=70), H("d_fwd_ack", cost=105),
            H("a_apply1_k1", cost=120), H("t_indirect_k2", cost=70), H("c14_next_k3", cost=40), H("c07_send_pb_17", cost=75), H("d_ping_upd_never", cost=115),
            H("d_ping_upd", tier=T, cost=900, timeout_t=1800, mem_gb=44), H("d_gossip_upd", tier=T, cost=900, timeout_t=1800, mem_gb=44), H("t_probe_k3", tier=T, cost=120),
        ],
    },
    "C06": {
        "level": "model_checking",
        "bounds": BOUNDS_E1 + "; adversarial payloads: fixed message kind, 2..9 arbitrary trailing bytes; set_config to packet sizes 16/32/36; Config::new_lan/new_wan for every NonZeroU32 (CBMC float model)",
        "outside": "payloads > 9 arbitrary bytes after the header; max_packet_size > 64 (u16 length truncation of 64 KiB items); user types that panic; release-profile wrapping is excluded by the overflow checks; " + OUT_E1,
        "assumptions": [STUBS, "every Rust panic / overflow / index / debug_assert check inside foca is a C06 obligation in every harness"],
        "harnesses": [
            H("c06_set_config_grow", cost=60), H("c06_set_config_shrink", cost=60), H("c06_fuzz_feed_2", cost=120),
            H("c06_fuzz_broadcast_5", cost=120), H("d_ping", cost=80), H("t_probe_k2", cost=60), H("t_indirect_k2", cost=70), H("c06_timer_crafted_suspect", cost=25),
            H("c06_config_new_lan", cost=10, **CD), H("c06_config_new_wan", cost=10, **CD), H("bc_fill_prefix_1", cost=120, **BC),
            H("c06_set_config_same", tier=T), H("c06_set_config_gossip", tier=T, cost=600, timeout_t=1800), H("c06_fuzz_gossip_7", tier=T, cost=900, timeout_t=1800), 
            H("c06_fuzz_turnundead_3", tier=T, cost=300), H("a_apply1_k2", tier=T, cost=220), H("d_turn_undead_never", tier=T, cost=200), 
            H("a_leave", tier=T), H("a_change_identity", tier=T), H("t_announce_down", tier=T, cost=120),
            H("c07_send_pb_9", tier=T), 
        ],
    },
    "C07": {
        "level": "model_checking",
        "technique": "Kani/CBMC bounded model checking of the private send_message for every packet-size boundary with an independent grammar oracle; MIR->SMT-LIB2 (z3 + cvc5) for the message-kind gates; native replay",
        "bounds": "private send_message on " + BOUNDS_E1 + "; packet sizes 9,10,12,13,16,17,21,22,27,32 (every boundary of header 10 / count 2 / member 5 / item 2+3); <= 2 pending updates, <= 2 pending 3-byte items; fixed-size kit codec; failing codec for Feed",
        "outside": "variable-length identity encodings and serde codecs at the Foca level (their framing is C20); packets > 36 bytes; > 2 items per section",
        "assumptions": [STUBS, "grammar oracle parse_datagram enumerates the finitely many layouts of the fixed-size kit format"],
        "harnesses": [
            H("c07_send_pb_12", cost=60), H("c07_send_pb_13", cost=60), H("c07_send_pb_17", cost=75), H("c07_send_pb_22", cost=130), H("c07_send_feed_17", cost=80),
            H("c07_send_bare_10", cost=25), H("c07_send_bcast_15", cost=25), H("c07_send_feed_fail_first", cost=90, bounds="Feed, 2 members, the first encode_member fails after writing 0..=3 stray bytes"), H("d_ping", cost=80), H("e4_message_gates_smt", engine="smt", group="gates", cost=80, entry="Message::{needs_piggyback, allow_custom_broadcasts, piggyback_only_active} (MIR -> SMT-LIB2, z3 + cvc5)", bounds="all 11 message kinds; 6 queries x 2 solvers"),
            H("c07_send_pb_9", tier=T), H("c07_send_pb_10", tier=T), H("c07_send_pb_16", tier=T), H("c07_send_pb_21", tier=T),
            H("c07_send_pb_27", tier=T, cost=200), H("c07_send_pb_32", tier=T, cost=300), H("c07_send_feed_12", tier=T), H("c07_send_feed_22", tier=T, cost=200),
            H("c07_send_feed_32", tier=T, cost=300), H("c07_send_feed_failing", tier=T, cost=600, timeout_t=1800), H("c07_send_feed_fail_second", tier=T, cost=100), H("c07_send_bare_32", tier=T),
            H("c07_send_bcast_14", tier=T), H("c07_send_bcast_32", tier=T), H("d_gossip_custom", tier=T), 
            H("c17_announce_payload", tier=T),
        ],
    },
    "C08": {
        "level": "model_checking", "bounds": BOUNDS_E1, "outside": OUT_E1, "assumptions": [STUBS],
        "harnesses": [
            H("a_apply1_k1", cost=120), H("c11_timeout_iff", cost=40), H("d_ping", cost=80), H("a_leave", cost=40), H("a_change_identity", cost=50),
            H("c08_accumulating_runtime", cost=70, entry="AccumulatingRuntime::{notify,submit_after,to_notify,to_schedule}", bounds="3 calls, concrete kind sequence N-T-N, symbolic payloads"),
            H("d_turn_undead_never", tier=T, cost=200), H("a_apply1_k2", tier=T, cost=220), H("a_apply1_k3", tier=T, cost=400), 
            H("t_remove", tier=T), H("a_reuse", tier=T), H("c01_monotone", tier=T),
            H("c08_accumulating_runtime_b", tier=T, cost=70), H("c08_accumulating_send", tier=T, cost=600, timeout_t=1800, entry="AccumulatingRuntime::{send_to,to_send}"),
        ],
    },
    "C09": {
        "level": "model_checking", "bounds": BOUNDS_E1, "outside": "change_identity to another member's address (identity changes keep the address: the renew contract); " + OUT_E1, "assumptions": [STUBS],
        "harnesses": [
            H("a_apply1_k1", cost=120), H("d_ping", cost=80), H("t_remove", cost=70), H("c01_monotone", cost=15), H("c01_frame", cost=100), H("d_broadcast_custom", cost=65), H("d_gossip_upd_never", cost=90),
            H("a_apply1_k2", tier=T, cost=220), H("a_change_identity", tier=T),
        ],
    },
    "C10": {
        "level": "model_checking", "bounds": BOUNDS_E1 + "; renew() yielding next / same / losing / no identity", "outside": OUT_E1, "assumptions": [STUBS],
        "harnesses": [
            H("a_apply1_k1", cost=120), H("a_change_identity", cost=50), H("a_reuse", cost=12), H("a_leave", cost=40), H("c01_monotone", cost=15), H("d_ping_upd_never", cost=115),
            H("d_turn_undead_never", tier=T, cost=200), H("d_turn_undead_next", tier=T, cost=600, timeout_t=1800), H("a_apply1_k2", tier=T, cost=220),
        ],
    },
    "C11": {
        "level": "model_checking", "bounds": BOUNDS_E1, "outside": OUT_E1,
        "assumptions": [STUBS, "timers named in the obligation are ones an instance can have scheduled itself (identity not newer than the record; current-token suspicion timers exist only while Connected)"],
        "harnesses": [
            H("c11_timeout_iff", cost=40, entry="Foca::handle_timer(ChangeSuspectToDown)"), H("t_remove", cost=70, entry="Foca::handle_timer(RemoveDown)"),
            H("a_apply1_k1", cost=120), H("d_ping", cost=80), H("a_leave", cost=40),
            H("c11_timeout_iff_k3", tier=T, cost=120), H("a_apply1_k2", tier=T, cost=220), 
        ],
    },
    "C12": {
        "level": "model_checking", "bounds": BOUNDS_E1 + "; fan-out 1..=2", "outside": "fan-out 3; " + OUT_E1, "assumptions": [STUBS],
        "harnesses": [
            H("t_probe_k2", cost=60), H("t_indirect_k2", cost=70), H("d_ack", cost=70), H("d_fwd_ack", cost=105), H("d_fwd_ack_2", cost=105, bounds="two helpers asked, fan-out 2"), H("d_ping", cost=80), H("d_pingreq", cost=80),
            H("d_indirect_ping", tier=T, cost=80), H("d_indirect_ack", tier=T, cost=80), H("t_probe_k3", tier=T, cost=120), H("t_indirect_k3", tier=T, cost=140),
        ],
    },
    "C13": {
        "level": "model_checking", "bounds": BOUNDS_E1,
        "outside": "token wrap-around (>= 256 epoch changes between issue and delivery); the ghost multiset of outstanding timers is composed by the prose argument of DESIGN §4 C13 from the per-step count equations decided here",
        "assumptions": [STUBS, "the runtime delivers each scheduled timer at most once"],
        "harnesses": [
            H("c13_stale_probe", cost=30), H("c13_stale_suspect", cost=45), H("c13_stale_gossip", cost=30), H("t_probe_k2", cost=60), H("t_announce", cost=65),
            H("c06_set_config_same", cost=60), H("a_apply1_k1", cost=120), H("a_change_identity", cost=50), H("a_reuse", cost=12), H("t_gossip_idle", cost=60),
            H("c13_stale_indirect", tier=T, cost=100), H("c13_stale_announce", tier=T, cost=85), H("c13_stale_announce_down", tier=T, cost=95), H("t_gossip", tier=T, cost=200),
            H("t_announce_down", tier=T, cost=120), H("a_leave", tier=T), H("d_turn_undead_never", tier=T, cost=200), 
            H("c11_timeout_iff", tier=T), H("t_indirect_k2", tier=T),
        ],
    },
    "C14": {
        "level": "model_checking",
        "technique": "Kani/CBMC bounded model checking of Members::next with fully symbolic shuffles over 2n-1 rounds",
        "bounds": "Members::next on 3/4/5 records with symbolic states (1..=3 active), any cursor (0..=5, usize::MAX, arbitrary), fully symbolic 64-bit RNG draws for the shuffle (k5: narrow tape), 5 consecutive rounds >= 2n-1",
        "outside": "n > 3 active members; memberships > 5 records", "assumptions": [],
        "harnesses": [
            H("c14_next_k3", cost=40, entry="Members::next x5"), H("c14_next_k4", cost=60, entry="Members::next x5"), H("t_probe_k2", cost=60),
            H("c14_next_k5", tier=T, cost=300), H("t_probe_k3", tier=T, cost=120),
        ],
    },
    "C15": {
        "level": "model_checking",
        "technique": "Kani/CBMC on the real broadcast.rs against a nondeterministic heap model + sender-side gates in-crate; MIR->SMT-LIB2 (z3 + cvc5) for the message-kind gates; native replay",
        "owns": ["C15", "C06"],
        "bounds": "real broadcast.rs against the heap model: <= 3 entries, budgets 1..=255 symbolic, entry lengths concrete per instance (1..4), space 0..=14 and max_items symbolic; sender gate: " + BOUNDS_E1,
        "outside": "> 3 backlog entries (model capacity 3); the induction from one fill to max_transmissions datagrams is the prose argument of DESIGN §4 C15",
        "assumptions": [STUBS, "BinaryHeap model: pop returns some maximal element (std's tie-breaking is covered by nondeterminism)"],
        "harnesses": [
            H("bc_fill_2_a", cost=290, timeout_q=900, **BC), H("bc_add_keyed", cost=120, **BC), H("bc_budget_two_rounds", cost=100, **BC),
            H("c07_send_pb_17", cost=75), H("a_apply1_k1", cost=120), H("c01_idempotent", cost=130),
            H("c15_key_same_addr", cost=60, entry="Foca::handle_apply_summary x3 on the real backlog (no stubs)"), H("c15_key_diff_addr", cost=60), H("c15_key_returning", cost=60), H("c15_gossip_real", cost=60, entry="Foca::gossip x3 on the real backlog and the real send buffer (no stubs)"), H("bc_fill_1", cost=80, **BC), H("e4_message_gates_smt", engine="smt", group="gates", cost=80, entry="Message::{needs_piggyback, allow_custom_broadcasts, piggyback_only_active} (MIR -> SMT-LIB2, z3 + cvc5)", bounds="all 11 message kinds; 6 queries x 2 solvers"),
            H("t_gossip_idle", tier=T), H("bc_fill_2_b", tier=T, cost=300, **BC), H("bc_fill_3_a", tier=T, cost=900, timeout_t=1800, **BC), H("bc_fill_3_b", tier=T, cost=900, timeout_t=1800, **BC),
            H("bc_fill_3_c", tier=T, cost=900, timeout_t=1800, **BC), H("bc_fill_real_buffer_short", tier=T, cost=450, **BC), H("t_gossip", tier=T, cost=200), H("c07_send_pb_22", tier=T, cost=130),
            H("c07_send_feed_17", tier=T), H("c07_send_bare_10", tier=T), H("a_gossip", tier=T, cost=90), H("t_probe_k2", tier=T),
        ],
    },
    "C16": {
        "level": "model_checking",
        "technique": "Kani/CBMC on the real broadcast.rs against a nondeterministic heap model + in-crate handle_data/add_broadcast/broadcast obligations; MIR->SMT-LIB2 (z3 + cvc5) for allow_custom_broadcasts",
        "owns": ["C16", "C06"],
        "bounds": "real broadcast.rs against the heap model (<= 3 items, arbitrary 3x3 invalidation relation); Foca level: " + BOUNDS_E1 + "; 3-byte items, symbolic handler answer and recipient predicate",
        "outside": "items > 6 bytes, > 2 pending items, 64 KiB length truncation", "assumptions": [STUBS],
        "harnesses": [
            H("bc_invalidate", cost=200, timeout_q=900, **BC), H("bc_fill_prefix_2", cost=300, timeout_q=900, **BC), H("c16_add_broadcast", cost=40), H("c16_broadcast_one", cost=120),
            H("d_gossip_custom", cost=65), H("d_ack_custom2", cost=80, entry="Foca::handle_data(Ack + two custom items)"), H("c07_send_bcast_15", cost=25), H("c16_broadcast_drain", cost=60, entry="Foca::broadcast on the real backlog (no stubs)"), H("e4_message_gates_smt", engine="smt", group="gates", cost=80, entry="Message::{needs_piggyback, allow_custom_broadcasts, piggyback_only_active} (MIR -> SMT-LIB2, z3 + cvc5)", bounds="all 11 message kinds; 6 queries x 2 solvers"),
            H("bc_fill_prefix_1", tier=T, **BC), H("bc_fill_prefix_3", tier=T, cost=900, timeout_t=1800, **BC), H("c16_broadcast_empty", tier=T), H("d_broadcast_custom", tier=T),
            H("c07_send_pb_17", tier=T), H("c07_send_pb_22", tier=T, cost=130), H("c07_send_bcast_32", tier=T), H("c07_send_bare_10", tier=T),
        ],
    },
    "C17": {
        "level": "model_checking", "bounds": BOUNDS_E1 + "; rejected inputs: oversize (13/15 bytes at limit 12), every header truncation, invalid tags, 3 kinds of undecodable member lists, one trailing byte, own identity/address sources, wrong destinations",
        "outside": "scratch buffers (updates_buf/choice_buf/send_buf contents) are not compared: every obligation starts from empty scratch and foca clears them before use; determinism rests on safe Rust without statics/clocks (checked structurally by bin/check) plus full-state equality here",
        "assumptions": [STUBS],
        "harnesses": [
            H("c17_oversize", cost=20), H("c17_bad_header_5", cost=30), H("c17_bad_header_tag11", cost=30), H("c17_bad_member_state", cost=40), H("c17_bad_member_count", cost=40), H("c17_trailing_byte", cost=30), H("c17_trailing_byte_ping", cost=60), H("d_ping", cost=80),
            H("a_reuse", cost=12), H("c16_add_broadcast", cost=40), H("c13_stale_indirect", cost=100), H("c13_stale_probe", cost=30),
            H("a_change_identity", tier=T), H("c06_set_config_same", tier=T), H("c17_announce_payload", tier=T), H("c17_trailing_byte_turn_undead", tier=T, cost=300), H("c17_bad_header_0", tier=T), H("c17_bad_header_9", tier=T), H("c17_bad_header_tag255", tier=T), H("c17_bad_member_trunc", tier=T), H("c17_bad_member_state255", tier=T), H("c13_stale_suspect", tier=T), H("c13_stale_gossip", tier=T), H("d_gossip", tier=T), H("a_announce", tier=T),
        ],
    },
    "C18": {
        "level": "other",
        "owns": ["C18", "C10"],
        "explanation": ("Termination of a multi-instance exchange is not model-checked (out of reach). Decided: the local facts that make every cascade finite, each for all "
                        "values within the bounds on one real instance: bounded fan-out per delivered datagram, the reply table (each direct reply strictly lighter than its "
                        "trigger), Gossip only in reaction to a suspicion about oneself or an identity change, at most one TurnUndead to a down sender, and a TurnUndead is "
                        "answered with a TurnUndead only by an instance that renewed its identity in that step. The composition is the prose argument of DESIGN §4 C18."),
        "bounds": BOUNDS_E1, "outside": "the composition over several instances; " + OUT_E1, "assumptions": [STUBS],
        "harnesses": [
            H("d_turn_undead_never", cost=200, timeout_q=900), H("d_turn_undead_losing", cost=200, timeout_q=900), H("d_feed_upd_tight", cost=150, timeout_q=900), H("d_ping", cost=80), H("d_ack", cost=70), H("d_gossip", cost=75), H("d_pingreq", cost=80),
            H("d_turn_undead_next", tier=T, cost=600, timeout_t=1800), H("d_turn_undead", tier=T, cost=900, timeout_t=1800, mem_gb=40), H("d_announce", tier=T, cost=500, timeout_t=1800), 
            H("d_indirect_ping", tier=T), H("d_indirect_ack", tier=T), H("d_fwd_ack", tier=T, cost=105), H("d_feed", tier=T), H("d_broadcast", tier=T), 
            
        ],
    },
    "C19": {
        "level": "model_checking", "bounds": BOUNDS_E1 + "; Down records bearing the instance's own address (older and newer generations) allowed by Inv", "outside": OUT_E1, "assumptions": [STUBS],
        "harnesses": [
            H("t_announce_down", cost=120), H("t_announce", cost=65), H("t_probe_k2", cost=60), H("t_indirect_k2", cost=70), H("d_ping", cost=80), H("a_gossip", cost=90), H("a_apply1_k1", cost=120),
            H("t_gossip", tier=T, cost=200), H("d_turn_undead_never", tier=T, cost=200), H("a_leave", tier=T), H("a_change_identity", tier=T),
            H("c16_broadcast_one", tier=T, cost=120), H("a_apply1_k2", tier=T, cost=220), H("c11_timeout_iff", tier=T),
        ],
    },
    "C20": {
        "level": "model_checking",
        "technique": "Kani/CBMC bounded model checking of the bundled postcard/bincode codecs through the public Codec trait (round-trip, short buffers, arbitrary bytes; reference encoding for bincode)",
        "owns": ["C20", "C06", "C07"],
        "bounds": "identity type SId{u8,u8}; every Message variant (one harness each), all incarnations/probe numbers; postcard: monolithic round-trip with one trailing byte, every buffer limit 0..=6, arbitrary byte strings <= 8 (member) / <= 12 (header); bincode: encode == reference encoding, decode(reference) == value, short buffers, arbitrary <= 6 bytes",
        "outside": "identities owning heap data (String/Vec); inputs > 12 bytes; bincode *header* round-trips (5 thorough-tier harnesses) exceed 24 GB and are reported undecided - for bincode only the member encoding is decided (against the reference encoding), its header encoding is not; the mid-feed clause is decided in C07 (c07_send_feed_failing)",
        "assumptions": ["alloc::fmt::format stubbed to an empty string (error formatting has no effect on control flow)"],
        "harnesses": [
            H("c20_pc_member_roundtrip", cost=30, **CD), H("c20_pc_header_pingreq", cost=60, **CD), H("c20_pc_member_short_buffer", cost=60, **CD),
            H("c20_pc_member_arbitrary_bytes", cost=60, **CD), H("c20_bc_member_encode_matches_reference", cost=90, **CD), H("c20_bc_member_arbitrary_bytes", cost=100, **CD), H("c20_bc_member_limit_3", cost=20, **CD), H("c20_bc_member_limit_0", cost=20, **CD),
            H("c07_send_feed_fail_second", cost=100, entry="Foca::send_message(Feed) with a codec failing mid-feed", bounds="2 members, the second encode_member fails after writing 0..=3 stray bytes"),
        ] + [H("c20_pc_header_" + v, tier=T, cost=60, **CD) for v in ["ping", "ack", "indirect_ping", "indirect_ack", "fwd_ack", "announce", "feed", "gossip", "broadcast", "turn_undead"]]
          + [H("c20_bc_header_" + v, tier=T, cost=200, timeout_t=1800, **CD) for v in ["ping", "pingreq", "fwd_ack", "announce", "turn_undead"]]
          + [H("c20_pc_header_arbitrary_bytes", tier=T, cost=200, **CD), H("c20_bc_member_short_buffer", tier=T, cost=300, **CD), H("c20_bc_member_limit_5", tier=T, cost=900, timeout_t=1800, **CD), H("c20_bc_member_decode_reference", tier=T, cost=600, timeout_t=1800, mem_gb=44, **CD),
             H("c07_send_pb_9", tier=T)],
    },
}

DEV = ["c15_gossip_real"]
PROPS["DEV"] = {"level": "model_checking", "harnesses": [H(n, engine=("bcast" if n.startswith("bc_") else "codec" if n.startswith("c20_") or n.startswith("c06_config") else "incrate")) for n in DEV]}

HOOK_COMMITS = ["2dd5aa0"]
FIX_COMMITS = ["abe7c6a", "5436701", "e6d4c29", "8791f91"]

_MULTI = ("whole-cluster, many-period schedule property with no closed chain of local step obligations; multi-instance bounded "
          "model checking of the real code measured out of reach (2 instances x 6 deliveries: > 20 min in symbolic execution, > 17 GB)")
NOT_APPLICABLE = {
    "C02": _MULTI,
    "C03": _MULTI,
    "C05": _MULTI,
}
for _p in ["C%02d" % i for i in range(1, 21)]:
    if _p not in PROPS and _p not in NOT_APPLICABLE:
        NOT_APPLICABLE[_p] = "check not built yet in this revision (planned: DESIGN.md §4)"

# default entry points by harness-name prefix (evidence only)
ENTRY = {"t": "Foca::handle_timer", "a": "Foca public API call", "d": "Foca::handle_data", "c07": "Foca::send_message (private)", "c13": "Foca::handle_timer (stale epoch)",
         "c17": "Foca::handle_data (rejected input)", "c06": "Foca::set_config / handle_data with adversarial payload / Config constructors", "c16": "Foca::add_broadcast / broadcast",
         "bc": "Broadcasts::{add_or_replace, fill, fill_with_len_prefix}", "c20": "PostcardCodec / BincodeCodec via Codec trait", "c14": "Members::next", "c01": "Members::apply", "c11": "Foca::handle_timer(ChangeSuspectToDown)",
         "c15": "Foca::handle_apply_summary (real backlog)", "c08": "AccumulatingRuntime"}
