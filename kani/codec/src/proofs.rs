use bytes::{Buf, BufMut};
use core::num::NonZeroU32;
use foca::{BincodeCodec, Codec, Config, Header, Identity, Member, Message, PostcardCodec, State};

#[derive(Clone, Copy, Debug, PartialEq, Eq, serde::Serialize, serde::Deserialize)]
pub struct SId {
    pub addr: u8,
    pub gen: u8,
}
impl Identity for SId {
    type Addr = u8;
    fn renew(&self) -> Option<Self> {
        None
    }
    fn addr(&self) -> u8 {
        self.addr
    }
    fn win_addr_conflict(&self, o: &Self) -> bool {
        self.gen > o.gen
    }
}

fn any_id() -> SId {
    SId {
        addr: kani::any(),
        gen: kani::any(),
    }
}
fn any_state() -> State {
    match kani::any::<u8>() % 3 {
        0 => State::Alive,
        1 => State::Suspect,
        _ => State::Down,
    }
}
fn any_member() -> Member<SId> {
    Member::new(any_id(), kani::any(), any_state())
}
/// `variant` is concrete per harness (one harness per message variant)
fn msg(variant: u8) -> Message<SId> {
    let n: u8 = kani::any();
    match variant {
        0 => Message::Ping(n),
        1 => Message::Ack(n),
        2 => Message::PingReq { target: any_id(), probe_number: n },
        3 => Message::IndirectPing { origin: any_id(), probe_number: n },
        4 => Message::IndirectAck { target: any_id(), probe_number: n },
        5 => Message::ForwardedAck { origin: any_id(), probe_number: n },
        6 => Message::Announce,
        7 => Message::Feed,
        8 => Message::Gossip,
        9 => Message::Broadcast,
        _ => Message::TurnUndead,
    }
}
fn any_header(variant: u8) -> Header<SId> {
    Header {
        src: any_id(),
        src_incarnation: kani::any(),
        dst: any_id(),
        message: msg(variant),
    }
}

// Kani stub target: formatting has no effect on control flow
pub fn no_format(_args: core::fmt::Arguments<'_>) -> String {
    String::new()
}

// ---------------------------------------------------------------- postcard

fn pc_member_roundtrip() {
    let m = any_member();
    let mut c = PostcardCodec;
    let mut buf: Vec<u8> = Vec::with_capacity(16);
    let r = c.encode_member(&m, &mut buf);
    kani::assert(r.is_ok(), "c20: encoding into a growable buffer succeeds");
    let n = buf.len();
    kani::assert(n >= 4 && n <= 6, "c20: postcard member is 4..=6 bytes");
    // followed by further data: exactly the bytes produced are consumed
    buf.push(kani::any());
    let mut rd: &[u8] = &buf[..];
    let back = c.decode_member(&mut rd);
    match back {
        Ok(b) => {
            kani::assert(b == m, "c20: member decodes back to an equal value");
            kani::assert(rd.remaining() == 1, "c20: decoding consumes exactly the bytes produced, even when followed by further data");
        }
        Err(_) => kani::assert(false, "c20: a valid member encoding decodes"),
    }
    kani::cover!(m.incarnation() == u16::MAX, "max incarnation");
    kani::cover!(n == 4, "shortest encoding");
    core::mem::forget(buf);
}

#[kani::proof]
#[kani::unwind(8)]
#[kani::stub(alloc::fmt::format, no_format)]
fn c20_pc_member_roundtrip() {
    pc_member_roundtrip()
}

fn pc_header_roundtrip(variant: u8) {
    let h = any_header(variant);
    let mut c = PostcardCodec;
    let mut buf: Vec<u8> = Vec::with_capacity(24);
    let r = c.encode_header(&h, &mut buf);
    kani::assert(r.is_ok(), "c20: encoding into a growable buffer succeeds");
    buf.push(kani::any());
    let total = buf.len();
    let mut rd: &[u8] = &buf[..];
    match c.decode_header(&mut rd) {
        Ok(b) => {
            kani::assert(b == h, "c20: header decodes back to an equal value");
            kani::assert(rd.remaining() == 1, "c20: decoding consumes exactly the bytes produced, even when followed by further data");
        }
        Err(_) => kani::assert(false, "c20: a valid header encoding decodes"),
    }
    kani::cover!(h.src_incarnation == u16::MAX, "max incarnation");
    kani::cover!(total > 8, "encoded");
    core::mem::forget(buf);
}

macro_rules! pc_hdr {
    ($name:ident, $v:expr) => {
        #[kani::proof]
        #[kani::unwind(8)]
        #[kani::stub(alloc::fmt::format, no_format)]
        fn $name() {
            pc_header_roundtrip($v)
        }
    };
}
pc_hdr!(c20_pc_header_ping, 0);
pc_hdr!(c20_pc_header_ack, 1);
pc_hdr!(c20_pc_header_pingreq, 2);
pc_hdr!(c20_pc_header_indirect_ping, 3);
pc_hdr!(c20_pc_header_indirect_ack, 4);
pc_hdr!(c20_pc_header_fwd_ack, 5);
pc_hdr!(c20_pc_header_announce, 6);
pc_hdr!(c20_pc_header_feed, 7);
pc_hdr!(c20_pc_header_gossip, 8);
pc_hdr!(c20_pc_header_broadcast, 9);
pc_hdr!(c20_pc_header_turn_undead, 10);

/// Encoding into a buffer with insufficient space: error, no panic, nothing
/// written past the limit.
#[kani::proof]
#[kani::unwind(8)]
#[kani::stub(alloc::fmt::format, no_format)]
fn c20_pc_member_short_buffer() {
    let m = any_member();
    let mut c = PostcardCodec;
    let limit: usize = kani::any();
    kani::assume(limit <= 6);
    let buf: Vec<u8> = Vec::with_capacity(8);
    let mut lim = buf.limit(limit);
    let r = c.encode_member(&m, &mut lim);
    let out = lim.into_inner();
    kani::assert(out.len() <= limit, "c20: never writes past the space given");
    // full length of this member's encoding
    let mut full: Vec<u8> = Vec::with_capacity(8);
    let _ = c.encode_member(&m, &mut full);
    if limit < full.len() {
        kani::assert(r.is_err(), "c20: encoding into a buffer with insufficient space returns an error");
    } else {
        kani::assert(r.is_ok() && out.len() == full.len(), "c20: encoding succeeds when the space suffices");
    }
    kani::cover!(r.is_err() && out.len() > 0, "partial write before the error");
    core::mem::forget(out);
    core::mem::forget(full);
}

/// Decoding arbitrary / truncated bytes: value or error, never a panic, never
/// reading past the input.
#[kani::proof]
#[kani::unwind(10)]
#[kani::stub(alloc::fmt::format, no_format)]
fn c20_pc_member_arbitrary_bytes() {
    let bytes: [u8; 8] = kani::any();
    let len: usize = kani::any();
    kani::assume(len <= 8);
    let mut c = PostcardCodec;
    let mut rd: &[u8] = &bytes[..len];
    let r: Result<Member<SId>, _> = c.decode_member(&mut rd);
    kani::assert(rd.remaining() <= len, "c20: never reads past the input");
    if let Ok(m) = &r {
        // whatever decodes re-encodes to at most what was consumed (canonical or shorter)
        kani::assert(len - rd.remaining() >= 4, "c20: a member needs at least 4 bytes");
    }
    kani::cover!(r.is_ok(), "arbitrary bytes decode");
    kani::cover!(r.is_err() && len == 8, "arbitrary bytes rejected");
    core::mem::forget(r);
}

#[kani::proof]
#[kani::unwind(14)]
#[kani::stub(alloc::fmt::format, no_format)]
fn c20_pc_header_arbitrary_bytes() {
    let bytes: [u8; 12] = kani::any();
    let len: usize = kani::any();
    kani::assume(len <= 12);
    let mut c = PostcardCodec;
    let mut rd: &[u8] = &bytes[..len];
    let r: Result<Header<SId>, _> = c.decode_header(&mut rd);
    kani::assert(rd.remaining() <= len, "c20: never reads past the input");
    kani::cover!(r.is_ok(), "arbitrary bytes decode");
    kani::cover!(r.is_err() && len == 12, "arbitrary bytes rejected");
    core::mem::forget(r);
}

// ---------------------------------------------------------------- bincode

type Bc = BincodeCodec<bincode::config::Configuration>;
fn bc() -> Bc {
    BincodeCodec(bincode::config::standard())
}

/// Reference encoding of bincode's `standard()` config for our types (varint
/// integers: < 251 one byte; u16 >= 251 as 0xFB + 2 bytes LE; enum variants as
/// u32 varints). Written from bincode's specification.
fn ref_varint_u16(v: u16, out: &mut Vec<u8>) {
    if v < 251 {
        out.push(v as u8);
    } else {
        out.push(251);
        out.push(v as u8);
        out.push((v >> 8) as u8);
    }
}
fn ref_member(m: &Member<SId>, out: &mut Vec<u8>) {
    out.push(m.id().addr);
    out.push(m.id().gen);
    ref_varint_u16(m.incarnation(), out);
    out.push(match m.state() {
        State::Alive => 0,
        State::Suspect => 1,
        State::Down => 2,
    });
}

#[kani::proof]
#[kani::unwind(8)]
#[kani::stub(alloc::fmt::format, no_format)]
fn c20_bc_member_encode_matches_reference() {
    let m = any_member();
    let mut c = bc();
    let mut buf: Vec<u8> = Vec::with_capacity(16);
    let r = c.encode_member(&m, &mut buf);
    kani::assert(r.is_ok(), "c20: encoding into a growable buffer succeeds");
    let mut want: Vec<u8> = Vec::with_capacity(16);
    ref_member(&m, &mut want);
    kani::assert(buf.len() == want.len(), "c20: bincode member encoding has the specified length");
    let mut i = 0;
    while i < 6 {
        if i < want.len() {
            kani::assert(buf[i] == want[i], "c20: bincode member encoding matches the specification byte for byte");
        }
        i += 1;
    }
    kani::cover!(m.incarnation() >= 251, "three-byte varint");
    kani::cover!(m.incarnation() == 250, "largest one-byte varint");
    core::mem::forget(r);
    core::mem::forget(buf);
    core::mem::forget(want);
}

/// decode(reference encoding of m ++ one more byte) == m, consuming exactly it.
#[kani::proof]
#[kani::unwind(8)]
#[kani::stub(alloc::fmt::format, no_format)]
fn c20_bc_member_decode_reference() {
    let m = any_member();
    let mut c = bc();
    let mut want: Vec<u8> = Vec::with_capacity(16);
    ref_member(&m, &mut want);
    want.push(kani::any());
    let mut rd: &[u8] = &want[..];
    let r: Result<Member<SId>, _> = c.decode_member(&mut rd);
    match &r {
        Ok(b) => {
            kani::assert(*b == m, "c20: member decodes back to an equal value");
            kani::assert(rd.remaining() == 1, "c20: decoding consumes exactly the bytes produced, even when followed by further data");
        }
        Err(_) => kani::assert(false, "c20: a valid member encoding decodes"),
    }
    kani::cover!(m.incarnation() >= 251, "three-byte varint");
    core::mem::forget(r);
    core::mem::forget(want);
}

#[kani::proof]
#[kani::unwind(8)]
#[kani::stub(alloc::fmt::format, no_format)]
fn c20_bc_member_short_buffer() {
    let m = any_member();
    let mut c = bc();
    let limit: usize = kani::any();
    kani::assume(limit <= 6);
    let buf: Vec<u8> = Vec::with_capacity(8);
    let mut lim = buf.limit(limit);
    let r = c.encode_member(&m, &mut lim);
    let out = lim.into_inner();
    kani::assert(out.len() <= limit, "c20: never writes past the space given");
    let need = if m.incarnation() < 251 { 4 } else { 6 };
    if limit < need {
        kani::assert(r.is_err(), "c20: encoding into a buffer with insufficient space returns an error");
    } else {
        kani::assert(r.is_ok() && out.len() == need, "c20: encoding succeeds when the space suffices");
    }
    kani::cover!(r.is_err(), "short buffer");
    core::mem::forget(r);
    core::mem::forget(out);
}

#[kani::proof]
#[kani::unwind(8)]
#[kani::stub(alloc::fmt::format, no_format)]
fn c20_bc_member_arbitrary_bytes() {
    let bytes: [u8; 6] = kani::any();
    let len: usize = kani::any();
    kani::assume(len <= 6);
    let mut c = bc();
    let mut rd: &[u8] = &bytes[..len];
    let r: Result<Member<SId>, _> = c.decode_member(&mut rd);
    kani::assert(rd.remaining() <= len, "c20: never reads past the input");
    kani::cover!(r.is_ok(), "arbitrary bytes decode");
    kani::cover!(r.is_err() && len == 6, "arbitrary bytes rejected");
    core::mem::forget(r);
}

fn bc_header_roundtrip(variant: u8) {
    let h = any_header(variant);
    let mut c = bc();
    let mut buf: Vec<u8> = Vec::with_capacity(24);
    let r = c.encode_header(&h, &mut buf);
    kani::assert(r.is_ok(), "c20: encoding into a growable buffer succeeds");
    buf.push(kani::any());
    let mut rd: &[u8] = &buf[..];
    let back: Result<Header<SId>, _> = c.decode_header(&mut rd);
    match &back {
        Ok(b) => {
            kani::assert(*b == h, "c20: header decodes back to an equal value");
            kani::assert(rd.remaining() == 1, "c20: decoding consumes exactly the bytes produced, even when followed by further data");
        }
        Err(_) => kani::assert(false, "c20: a valid header encoding decodes"),
    }
    kani::cover!(h.src_incarnation >= 251, "three-byte varint");
    core::mem::forget(r);
    core::mem::forget(back);
    core::mem::forget(buf);
}

macro_rules! bc_hdr {
    ($name:ident, $v:expr) => {
        #[kani::proof]
        #[kani::unwind(8)]
        #[kani::stub(alloc::fmt::format, no_format)]
        fn $name() {
            bc_header_roundtrip($v)
        }
    };
}
bc_hdr!(c20_bc_header_ping, 0);
bc_hdr!(c20_bc_header_pingreq, 2);
bc_hdr!(c20_bc_header_fwd_ack, 5);
bc_hdr!(c20_bc_header_announce, 6);
bc_hdr!(c20_bc_header_turn_undead, 10);

// ---------------------------------------------------------------- Config

/// Config::new_lan / new_wan for every cluster size (CBMC's float model).
#[kani::proof]
#[kani::unwind(4)]
fn c06_config_new_lan() {
    let n: u32 = kani::any();
    kani::assume(n >= 1);
    let c = Config::new_lan(NonZeroU32::new(n).unwrap());
    kani::assert(c.max_transmissions.get() >= 1, "c06: max_transmissions is non-zero");
    kani::assert(c.suspect_to_down_after.as_secs() >= 4 && c.suspect_to_down_after.as_secs() <= 40, "c06: suspicion duration stays in range");
    kani::assert(c.probe_rtt < c.probe_period, "c06: probe_rtt < probe_period");
    kani::cover!(n == u32::MAX, "largest cluster");
}

#[kani::proof]
#[kani::unwind(4)]
fn c06_config_new_wan() {
    let n: u32 = kani::any();
    kani::assume(n >= 1);
    let c = Config::new_wan(NonZeroU32::new(n).unwrap());
    kani::assert(c.max_transmissions.get() >= 1, "c06: max_transmissions is non-zero");
    kani::assert(c.suspect_to_down_after.as_secs() >= 30 && c.suspect_to_down_after.as_secs() <= 300, "c06: suspicion duration stays in range");
    kani::assert(c.probe_rtt < c.probe_period, "c06: probe_rtt < probe_period");
    kani::cover!(n == 1, "single node");
}

/// bincode, concrete buffer limits (cheap instances of the short-buffer clause)
fn bc_member_limit(limit: usize) {
    let m = any_member();
    let mut c = bc();
    let buf: Vec<u8> = Vec::with_capacity(8);
    let mut lim = buf.limit(limit);
    let r = c.encode_member(&m, &mut lim);
    let out = lim.into_inner();
    kani::assert(out.len() <= limit, "c20: never writes past the space given");
    let need = if m.incarnation() < 251 { 4 } else { 6 };
    if limit < need {
        kani::assert(r.is_err(), "c20: encoding into a buffer with insufficient space returns an error");
    } else {
        kani::assert(r.is_ok() && out.len() == need, "c20: encoding succeeds when the space suffices");
    }
    kani::cover!(m.incarnation() >= 251, "three-byte varint");
    core::mem::forget(r);
    core::mem::forget(out);
}
#[kani::proof]
#[kani::unwind(8)]
#[kani::stub(alloc::fmt::format, no_format)]
fn c20_bc_member_limit_0() {
    bc_member_limit(0)
}
#[kani::proof]
#[kani::unwind(8)]
#[kani::stub(alloc::fmt::format, no_format)]
fn c20_bc_member_limit_3() {
    bc_member_limit(3)
}
#[kani::proof]
#[kani::unwind(8)]
#[kani::stub(alloc::fmt::format, no_format)]
fn c20_bc_member_limit_5() {
    bc_member_limit(5)
}
