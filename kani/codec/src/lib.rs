//! Engine E3: the bundled codecs and the `Config` constructors through foca's
//! public API (path dependency on /repo, rebuilt from its working tree).
#![allow(dead_code, unused)]

#[cfg(kani)]
mod proofs;
