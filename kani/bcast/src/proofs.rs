//! Proof harnesses over the real `Broadcasts` (C15, C16).
use crate::broadcast::{Broadcasts, Invalidates};
use alloc::vec::Vec;
use bytes::BufMut;

/// cluster-update key: one entry per address
struct A(u8);
impl Invalidates for A {
    fn invalidates(&self, o: &Self) -> bool {
        self.0 == o.0
    }
}

/// custom key with an arbitrary (table-driven) invalidation relation:
/// `rel[self.0][other.0]`
#[derive(Clone, Copy)]
struct R(u8, [[bool; 3]; 3]);
impl Invalidates for R {
    fn invalidates(&self, o: &Self) -> bool {
        self.1[self.0 as usize][o.0 as usize]
    }
}

/// data of entry `i`: `len` bytes, first byte = tag (identifies the entry in the output)
fn data(tag: u8, len: usize) -> Vec<u8> {
    match len {
        1 => alloc::vec![tag],
        2 => alloc::vec![tag, 0xA0],
        3 => alloc::vec![tag, 0xA0, 0xA1],
        _ => alloc::vec![tag, 0xA0, 0xA1, 0xA2],
    }
}

fn arb_len() -> usize {
    let l: usize = kani::any();
    kani::assume(l >= 1 && l <= 4);
    l
}

fn arb_tx() -> usize {
    let t: u8 = kani::any();
    kani::assume(t >= 1);
    t as usize
}

const N: usize = 3;

struct Pre {
    tx: [usize; N],
    len: [usize; N],
}

/// Entry lengths are concrete per harness instance (a symbolic-length payload
/// makes every copy intractable); budgets, space and max_items are symbolic.
fn build<T: Invalidates>(n: usize, lens: [usize; N], key: impl Fn(usize) -> T) -> (Broadcasts<T>, Pre) {
    let mut b = Broadcasts::new();
    let mut pre = Pre {
        tx: [0; N],
        len: [0; N],
    };
    let mut i = 0;
    while i < n {
        pre.tx[i] = arb_tx();
        pre.len[i] = lens[i];
        b.verif_push_raw(key(i), data(0x10 + i as u8, pre.len[i]), pre.tx[i]);
        i += 1;
    }
    (b, pre)
}

/// position-independent lookup of entry `i` (by tag) in the backlog
fn find<T: Invalidates>(b: &Broadcasts<T>, i: usize) -> Option<usize> {
    let mut r = None;
    for (_k, tx, d) in b.verif_items() {
        if d[0] == 0x10 + i as u8 {
            r = Some(tx);
        }
    }
    r
}

/// Recording `BufMut`: honours the trait contract (panics when asked to write
/// more than `remaining_mut`) and logs every write structurally, so the
/// obligation needs no symbolic indexing into a byte buffer.
struct Sink {
    space: usize,
    n: usize,
    /// (is_u16, value-or-first-byte, len, bytes)
    ev: [(bool, u16, usize, [u8; 4]); 8],
    scratch: [u8; 8],
    overflow: bool,
}

impl Sink {
    fn new(space: usize) -> Self {
        Self {
            space,
            n: 0,
            ev: [(false, 0, 0, [0; 4]); 8],
            scratch: [0; 8],
            overflow: false,
        }
    }
    fn log(&mut self, e: (bool, u16, usize, [u8; 4])) {
        if self.n < 8 {
            self.ev[self.n] = e;
            self.n += 1;
        } else {
            self.overflow = true;
        }
    }
}

unsafe impl BufMut for Sink {
    fn remaining_mut(&self) -> usize {
        self.space
    }
    unsafe fn advance_mut(&mut self, cnt: usize) {
        kani::assert(cnt <= self.space, "c07: never advances past the space given");
        self.space -= cnt;
        self.overflow = true; // foca is expected to use put_* only
    }
    fn chunk_mut(&mut self) -> &mut bytes::buf::UninitSlice {
        bytes::buf::UninitSlice::new(&mut self.scratch[..])
    }
    fn put_slice(&mut self, src: &[u8]) {
        kani::assert(src.len() <= self.space, "c07: never writes more than the space given");
        let mut b = [0u8; 4];
        let mut i = 0;
        while i < 4 {
            if i < src.len() {
                b[i] = src[i];
            }
            i += 1;
        }
        self.log((false, 0, src.len(), b));
        self.space -= src.len();
    }
    fn put_u16(&mut self, v: u16) {
        kani::assert(2 <= self.space, "c07: never writes more than the space given");
        self.log((true, v, 2, [0; 4]));
        self.space -= 2;
    }
}

/// Core accounting of one `fill` / `fill_with_len_prefix` call on an arbitrary
/// backlog of `n` entries and an arbitrary amount of space.
fn fill_obligation(n: usize, prefixed: bool, lens: [usize; N]) {
    let (mut b, pre) = build(n, lens, |i| A(i as u8));
    let space: usize = kani::any();
    kani::assume(space <= 14);
    let mi: u8 = kani::any();
    let max_items: usize = if mi > 4 { usize::MAX } else { mi as usize };
    let mut sink = Sink::new(space);
    let taken = if prefixed {
        b.fill_with_len_prefix(&mut sink, max_items)
    } else {
        b.fill(&mut sink, max_items)
    };
    let left = sink.space;
    let hdr = if prefixed { 2 } else { 0 };
    kani::assert(!sink.overflow, "harness: write log large enough, only put_* used");
    kani::assert(b.verif_flop_len() == 0, "c15: scratch heap is empty after fill");

    // the writes are a sequence of whole items
    let mut written = [false; N];
    let mut count = 0usize;
    let mut used = 0usize;
    let mut e = 0;
    while e < 8 {
        if e < sink.n {
            let (is16, v, l, bytes) = sink.ev[e];
            if prefixed && e % 2 == 0 {
                kani::assert(is16 && e + 1 < sink.n, "c16: every item starts with a 16-bit length followed by its bytes");
                kani::assert(v as usize == sink.ev[e + 1].2 && v >= 1, "c16: the length prefix equals the item's length and is non-zero");
            } else {
                kani::assert(!is16, "c07: item bytes are written as one whole slice");
                let tag = bytes[0];
                kani::assert(tag >= 0x10 && ((tag - 0x10) as usize) < n, "c15: only backlog entries are written");
                let i = (tag - 0x10) as usize;
                kani::assert(l == pre.len[i], "c15: an entry is never written partially");
                let mut k = 1;
                while k < 4 {
                    if k < l {
                        kani::assert(bytes[k] == 0x9F + k as u8, "c15: entry bytes are verbatim");
                    }
                    k += 1;
                }
                kani::assert(!written[i], "c15: an entry is written at most once per datagram");
                written[i] = true;
                count += 1;
            }
            used += l;
        }
        e += 1;
    }
    kani::assert(used + left == space, "c07: space accounting is exact");
    kani::assert(taken == count, "c07: fill returns the number of items written");
    kani::assert(count <= max_items, "c15: fill honours max_items");

    // accounting per entry
    let mut i = 0;
    while i < N {
        if i < n {
            let now = find(&b, i);
            if written[i] {
                if pre.tx[i] == 1 {
                    kani::assert(now.is_none(), "c15: an entry leaves the backlog after exactly max_transmissions datagrams");
                } else {
                    kani::assert(now == Some(pre.tx[i] - 1), "c15: each transmission consumes exactly one from the budget");
                }
            } else {
                kani::assert(now == Some(pre.tx[i]), "c15: an entry that was not transmitted keeps its budget");
                // no-omit: an unwritten entry does not fit in what is left
                if count < max_items {
                    kani::assert(pre.len[i] + hdr > left, "c15: never omits a pending update that would still fit");
                }
            }
        }
        i += 1;
    }
    let mut expect_len = 0;
    let mut j = 0;
    while j < N {
        if j < n && !(written[j] && pre.tx[j] == 1) {
            expect_len += 1;
        }
        j += 1;
    }
    kani::assert(b.len() == expect_len, "c15: backlog holds exactly the entries with budget left");

    // priority: a written entry never jumps over an unwritten one with more
    // transmissions left that would have fit in its place
    let mut x = 0;
    while x < N {
        let mut y = 0;
        while y < N {
            if x < n && y < n && written[x] && !written[y] && pre.tx[y] > pre.tx[x] && count < max_items {
                kani::assert(pre.len[y] + hdr > left + pre.len[x] + hdr, "c15: updates with more transmissions remaining take precedence");
            }
            y += 1;
        }
        x += 1;
    }
    kani::cover!(count == n && n > 0, "everything fits");
    kani::cover!(n < 2 || (count < n && count > 0), "partial fill");
    kani::cover!(n < 2 || (written[1] && !written[0]), "one entry written while another is skipped");
}

macro_rules! fill_h {
    ($name:ident, $n:expr, $p:expr, $l:expr) => {
        #[kani::proof]
        #[kani::unwind(10)]
        fn $name() {
            fill_obligation($n, $p, $l)
        }
    };
}
fill_h!(bc_fill_1, 1, false, [3, 0, 0]);
fill_h!(bc_fill_2_a, 2, false, [2, 3, 0]);
fill_h!(bc_fill_2_b, 2, false, [3, 3, 0]);
fill_h!(bc_fill_3_a, 3, false, [1, 2, 3]);
fill_h!(bc_fill_3_b, 3, false, [2, 2, 4]);
fill_h!(bc_fill_3_c, 3, false, [4, 4, 4]);
fill_h!(bc_fill_prefix_1, 1, true, [3, 0, 0]);
fill_h!(bc_fill_prefix_2, 2, true, [1, 3, 0]);
fill_h!(bc_fill_prefix_3, 3, true, [1, 2, 2]);

/// `add_or_replace` with address keys: one entry per key, always the newest.
#[kani::proof]
#[kani::unwind(10)]
fn bc_add_keyed() {
    let mut b: Broadcasts<A> = Broadcasts::new();
    let k: [u8; 3] = [kani::any(), kani::any(), kani::any()];
    let tx: [usize; 3] = [arb_tx(), arb_tx(), arb_tx()];
    let ln: [usize; 3] = [2, 3, 2];
    b.add_or_replace(A(k[0]), data(0x10, ln[0]), tx[0]);
    kani::assert(b.len() == 1 && find(&b, 0) == Some(tx[0]), "c15: an accepted update enters the backlog with the full budget");
    b.add_or_replace(A(k[1]), data(0x11, ln[1]), tx[1]);
    b.add_or_replace(A(k[2]), data(0x12, ln[2]), tx[2]);
    // newest always present with full budget
    kani::assert(find(&b, 2) == Some(tx[2]), "c15: the most recently accepted update is in the backlog");
    kani::assert(find(&b, 1).is_some() == (k[1] != k[2]), "c15: an update is superseded exactly by a fresher one for the same address");
    kani::assert(find(&b, 0).is_some() == (k[0] != k[1] && k[0] != k[2]), "c15: an update is superseded exactly by a fresher one for the same address");
    let distinct = 1 + (k[1] != k[2]) as usize + (k[0] != k[1] && k[0] != k[2]) as usize;
    kani::assert(b.len() == distinct, "c15: the backlog never holds more than one update per address");
    if let Some(t) = find(&b, 1) {
        kani::assert(t == tx[1], "c15: untouched entries keep their budget");
    }
    kani::cover!(distinct == 1, "all same address");
    kani::cover!(distinct == 3, "all distinct addresses");
}

/// `add_or_replace` with an arbitrary invalidation relation (custom broadcasts).
#[kani::proof]
#[kani::unwind(10)]
fn bc_invalidate() {
    let rel: [[bool; 3]; 3] = kani::any();
    let mut b: Broadcasts<R> = Broadcasts::new();
    let k: [u8; 3] = [kani::any(), kani::any(), kani::any()];
    kani::assume(k[0] < 3 && k[1] < 3 && k[2] < 3);
    let tx: [usize; 3] = [arb_tx(), arb_tx(), arb_tx()];
    b.verif_push_raw(R(k[0], rel), data(0x10, 2), tx[0]);
    b.verif_push_raw(R(k[1], rel), data(0x11, 3), tx[1]);
    b.add_or_replace(R(k[2], rel), data(0x12, 1), tx[2]);
    let inv0 = rel[k[2] as usize][k[0] as usize];
    let inv1 = rel[k[2] as usize][k[1] as usize];
    kani::assert(find(&b, 0).is_none() == inv0, "c16: an item invalidated by a newly accepted key leaves the backlog immediately, others stay");
    kani::assert(find(&b, 1).is_none() == inv1, "c16: an item invalidated by a newly accepted key leaves the backlog immediately, others stay");
    kani::assert(find(&b, 2) == Some(tx[2]), "c16: the accepted item is queued with the full budget");
    kani::assert(b.len() == 1 + !inv0 as usize + !inv1 as usize, "c16: backlog = survivors + new item");
    // and it is never transmitted again
    let mut sink = Sink::new(32);
    let _ = b.fill_with_len_prefix(&mut sink, usize::MAX);
    let mut g = 0;
    while g < 8 {
        if g < sink.n && !sink.ev[g].0 {
            let tag = sink.ev[g].3[0];
            kani::assert(!(tag == 0x10 && inv0) && !(tag == 0x11 && inv1), "c16: an invalidated item is never transmitted again");
        }
        g += 1;
    }
    kani::cover!(inv0 && !inv1, "one invalidated, one kept");
}

/// Dissemination budget by induction: an entry with budget t is written on
/// exactly t of the next datagrams that have room for it (two consecutive fills).
#[kani::proof]
#[kani::unwind(10)]
fn bc_budget_two_rounds() {
    let (mut b, pre) = build(1, [3, 0, 0], |i| A(i as u8));
    let mut s1 = Sink::new(8);
    let n1 = b.fill(&mut s1, usize::MAX);
    let mut s2 = Sink::new(8);
    let n2 = b.fill(&mut s2, usize::MAX);
    kani::assert(n1 == 1, "c15: a pending update that fits is piggybacked");
    if pre.tx[0] == 1 {
        kani::assert(n2 == 0 && b.len() == 0, "c15: piggybacked at most max_transmissions times");
    } else {
        kani::assert(n2 == 1, "c15: piggybacked until the budget is used up");
        kani::assert(find(&b, 0).is_none() == (pre.tx[0] == 2), "c15: leaves the backlog after exactly max_transmissions datagrams");
    }
    kani::cover!(pre.tx[0] == 2, "budget two");
}

/// Integration with the buffer type foca really uses (`Limit<Vec<u8>>`): one
/// entry of 3 bytes, concrete space per instance (a symbolic limit on a growable
/// `Vec` runs out of memory), budget symbolic.
fn fill_real_buffer(space: usize) {
    let (mut b, pre) = build(1, [3, 0, 0], |i| A(i as u8));
    let buf: Vec<u8> = Vec::with_capacity(8);
    let mut lim = buf.limit(space);
    let taken = b.fill(&mut lim, usize::MAX);
    let out = lim.into_inner();
    if space >= 3 {
        kani::assert(taken == 1 && out.len() == 3 && out[0] == 0x10 && out[1] == 0xA0 && out[2] == 0xA1, "c15: the update is written verbatim");
        kani::assert(find(&b, 0).is_none() == (pre.tx[0] == 1), "c15: leaves the backlog after exactly max_transmissions datagrams");
    } else {
        kani::assert(taken == 0 && out.is_empty() && find(&b, 0) == Some(pre.tx[0]), "c15: an update that does not fit is not written, not even partially");
    }
    kani::cover!(pre.tx[0] == 1, "last transmission");
}
#[kani::proof]
#[kani::unwind(10)]
fn bc_fill_real_buffer() {
    fill_real_buffer(3)
}
#[kani::proof]
#[kani::unwind(10)]
fn bc_fill_real_buffer_short() {
    fill_real_buffer(2)
}
#[kani::proof]
#[kani::unwind(10)]
fn bc_fill_real_buffer_roomy() {
    fill_real_buffer(6)
}
