//! Engine E2: foca's dissemination backlog (`/repo/src/broadcast.rs`, compiled
//! byte-for-byte from the repository's working tree) against a model of
//! `BinaryHeap` (see valloc). Decides C15 / C16 accounting and discharges the
//! contract that the in-crate `fill` / `add_or_replace` stubs assume.
#![no_std]
#![allow(dead_code, unused, private_interfaces)]
extern crate alloc;

#[path = "/repo/src/broadcast.rs"]
mod broadcast;

#[cfg(kani)]
mod proofs;
