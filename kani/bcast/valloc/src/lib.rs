//! Stand-in for the `alloc` crate used when verifying /repo/src/broadcast.rs in
//! isolation: everything is the real `alloc`, except `collections::BinaryHeap`,
//! which is a model of a max-priority queue: `pop` returns a nondeterministically
//! chosen *maximal* element (std's heap breaks ties by layout; the model covers
//! every tie-break). Only the methods foca uses are provided.
#![no_std]
extern crate alloc as real_alloc;

pub use real_alloc::{alloc, borrow, boxed, fmt, rc, slice, str, string, sync, vec};

pub mod collections {
    pub use real_alloc::collections::{BTreeMap, BTreeSet, VecDeque};

    pub mod binary_heap {
        /// Fixed slots, every index concrete (loops over 0..CAP with guarded moves):
        /// a symbolic index into a heap-allocated array of entries is intractable.
        pub struct BinaryHeap<T> {
            slots: [Option<T>; crate::CAP],
        }

        /// plain slot iterator (`Flatten` costs ~10x more loop unwindings in CBMC)
        pub struct Iter<'a, T> {
            slots: &'a [Option<T>; crate::CAP],
            i: usize,
        }

        impl<'a, T> Iterator for Iter<'a, T> {
            type Item = &'a T;
            fn next(&mut self) -> Option<&'a T> {
                while self.i < crate::CAP {
                    let k = self.i;
                    self.i += 1;
                    if let Some(x) = &self.slots[k] {
                        return Some(x);
                    }
                }
                None
            }
        }

        impl<T: Ord> Default for BinaryHeap<T> {
            fn default() -> Self {
                Self::new()
            }
        }

        impl<T: Ord> BinaryHeap<T> {
            pub fn new() -> Self {
                Self {
                    slots: [None, None, None],
                }
            }
            pub fn len(&self) -> usize {
                let mut n = 0;
                let mut j = 0;
                while j < crate::CAP {
                    if self.slots[j].is_some() {
                        n += 1;
                    }
                    j += 1;
                }
                n
            }
            pub fn is_empty(&self) -> bool {
                self.len() == 0
            }
            pub fn push(&mut self, item: T) {
                let mut item = Some(item);
                let mut j = 0;
                while j < crate::CAP {
                    if item.is_some() && self.slots[j].is_none() {
                        self.slots[j] = item.take();
                    }
                    j += 1;
                }
                // model capacity exceeded: outside the stated bound
                #[cfg(kani)]
                kani::assume(item.is_none());
                #[cfg(not(kani))]
                assert!(item.is_none(), "heap model capacity");
            }
            /// removes and returns *some* maximal element
            pub fn pop(&mut self) -> Option<T> {
                if self.is_empty() {
                    return None;
                }
                #[cfg(kani)]
                let pick: usize = kani::any();
                #[cfg(not(kani))]
                let pick: usize = 0;
                let mut out: Option<T> = None;
                let mut j = 0;
                while j < crate::CAP {
                    if j == pick {
                        out = self.slots[j].take();
                    }
                    j += 1;
                }
                #[cfg(kani)]
                kani::assume(out.is_some());
                if let Some(ref top) = out {
                    let mut j = 0;
                    while j < crate::CAP {
                        if let Some(ref other) = self.slots[j] {
                            #[cfg(kani)]
                            kani::assume(other <= top);
                        }
                        j += 1;
                    }
                }
                out
            }
            pub fn retain<F: FnMut(&T) -> bool>(&mut self, mut f: F) {
                let mut j = 0;
                while j < crate::CAP {
                    let keep = match &self.slots[j] {
                        Some(x) => f(x),
                        None => true,
                    };
                    if !keep {
                        self.slots[j] = None;
                    }
                    j += 1;
                }
            }
            pub fn append(&mut self, other: &mut Self) {
                let mut j = 0;
                while j < crate::CAP {
                    if let Some(x) = other.slots[j].take() {
                        self.push(x);
                    }
                    j += 1;
                }
            }
            pub fn iter(&self) -> Iter<'_, T> {
                Iter {
                    slots: &self.slots,
                    i: 0,
                }
            }
            pub fn clear(&mut self) {
                let mut j = 0;
                while j < crate::CAP {
                    self.slots[j] = None;
                    j += 1;
                }
            }
        }
    }
    pub use binary_heap::BinaryHeap;
}

/// capacity of the heap model (bound on backlog size in engine `bcast`)
pub const CAP: usize = 3;
