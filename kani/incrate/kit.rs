//! Verification kit: identity, codecs, RNG tape, recording runtime, value source.
//!
//! Compiled into foca under `cfg(kani)` (symbolic values come from `kani::any`)
//! and under `--cfg caio_foca_verif` (values come from a byte tape: native replay).
use alloc::vec::Vec;
use core::time::Duration;

use bytes::{Buf, BufMut};

use crate::{
    BroadcastHandler, Codec, Header, Identity, Incarnation, Invalidates, Member, Message,
    Notification, Runtime, State, Timer,
};

// ---------------------------------------------------------------------------
// Value source
// ---------------------------------------------------------------------------

/// Source of (symbolic or replayed) values. All nondeterminism of a harness is
/// drawn through this trait, one primitive at a time, so that the ordered list
/// of values Kani prints for a counterexample maps 1:1 onto a byte tape.
pub trait Src {
    fn u8(&mut self) -> u8;
    fn u16(&mut self) -> u16;
    fn u64(&mut self) -> u64;
    fn bool(&mut self) -> bool;
    /// `kani::assume` / natively: remembers that the tape left the claim's domain.
    fn assume(&mut self, c: bool);
    /// false once an assumption was violated (native only).
    fn ok(&self) -> bool;

    /// value in 0..n (n <= 255)
    fn below(&mut self, n: u8) -> u8 {
        let v = self.u8();
        self.assume(v < n);
        v
    }
}

#[cfg(kani)]
pub struct KaniSrc;

#[cfg(kani)]
impl Src for KaniSrc {
    fn u8(&mut self) -> u8 {
        kani::any()
    }
    fn u16(&mut self) -> u16 {
        kani::any()
    }
    fn u64(&mut self) -> u64 {
        kani::any()
    }
    fn bool(&mut self) -> bool {
        kani::any()
    }
    fn assume(&mut self, c: bool) {
        kani::assume(c)
    }
    fn ok(&self) -> bool {
        true
    }
}

/// Native value source: little-endian bytes in draw order (what
/// `--concrete-playback=print` lists). Running out of tape yields zeros and
/// marks the run as outside the domain.
pub struct TapeSrc<'a> {
    pub tape: &'a [u8],
    pub pos: usize,
    pub good: bool,
    /// lenient: a violated assumption / exhausted tape is remembered instead of
    /// aborting (used only for value lists read from a raw CBMC trace, which may
    /// omit inputs the failing path does not depend on)
    pub lenient: bool,
}

impl<'a> TapeSrc<'a> {
    pub fn new(tape: &'a [u8]) -> Self {
        Self {
            tape,
            pos: 0,
            good: true,
            lenient: false,
        }
    }
    fn byte(&mut self) -> u8 {
        if let Some(b) = self.tape.get(self.pos) {
            self.pos += 1;
            *b
        } else {
            if self.lenient {
                self.good = false;
                return 0;
            }
            // a solver counterexample always provides every value it drew
            panic!("verif: tape exhausted (value list does not match the harness's draws)");
        }
    }
}

impl Src for TapeSrc<'_> {
    fn u8(&mut self) -> u8 {
        self.byte()
    }
    fn u16(&mut self) -> u16 {
        let a = self.byte() as u16;
        let b = self.byte() as u16;
        a | (b << 8)
    }
    fn u64(&mut self) -> u64 {
        let mut v = 0u64;
        let mut i = 0;
        while i < 8 {
            v |= (self.byte() as u64) << (8 * i);
            i += 1;
        }
        v
    }
    fn bool(&mut self) -> bool {
        self.byte() & 1 == 1
    }
    fn assume(&mut self, c: bool) {
        if !c {
            if self.lenient {
                self.good = false;
                return;
            }
            // the solver's counterexamples satisfy every assumption: a violated one
            // means the tape is not a faithful value list, never a finding
            panic!("verif: assumption violated (tape outside the harness domain)");
        }
    }
    fn ok(&self) -> bool {
        self.good
    }
}

/// Assertion of an obligation. Same text under Kani and natively.
#[macro_export]
macro_rules! vassert {
    ($c:expr, $m:literal) => {{
        #[cfg(kani)]
        kani::assert($c, $m);
        #[cfg(not(kani))]
        assert!($c, $m);
    }};
}

/// Reachability witness: must be SATISFIED in every run (anti-vacuity).
#[macro_export]
macro_rules! vcover {
    ($c:expr, $m:literal) => {
        #[cfg(kani)]
        kani::cover!($c, $m);
        #[cfg(not(kani))]
        {
            let _ = $c;
        }
    };
}

// ---------------------------------------------------------------------------
// Identity
// ---------------------------------------------------------------------------

#[derive(Clone, Copy, Debug, PartialEq, Eq)]
pub enum RenewMode {
    /// not renewable
    Never,
    /// renew() = next generation (wins)
    Next,
    /// renew() = the very same identity
    Same,
    /// renew() = previous generation (loses)
    Losing,
}

/// Identity = (address, generation). Among identities sharing an address the
/// higher generation wins (a strict total order, the documented contract).
/// `renew` only matters for the instance's own identity and is not part of Eq.
#[derive(Clone, Copy, Debug)]
pub struct Id {
    pub addr: u8,
    pub gen: u8,
    pub renew: RenewMode,
    /// layout ballast (always 0): makes `Header<Id>`/`Member<Id>` larger than
    /// `foca::Error`, so that `Result<Header<Id>, Error>` keeps its discriminant
    /// in a field CBMC can constant-fold (otherwise an early `?` return is not
    /// recognised and the rest of `handle_data` is explored on garbage)
    pub pad: [u64; 2],
}

impl PartialEq for Id {
    fn eq(&self, o: &Self) -> bool {
        self.addr == o.addr && self.gen == o.gen
    }
}
impl Eq for Id {}

impl Id {
    pub const fn new(addr: u8, gen: u8) -> Self {
        Self {
            addr,
            gen,
            renew: RenewMode::Never,
            pad: [0; 2],
        }
    }
    pub fn arb(s: &mut impl Src) -> Self {
        Self::new(s.u8(), s.u8())
    }
    pub fn arb_renew(s: &mut impl Src) -> RenewMode {
        match s.below(4) {
            0 => RenewMode::Never,
            1 => RenewMode::Next,
            2 => RenewMode::Same,
            _ => RenewMode::Losing,
        }
    }
}

impl Identity for Id {
    type Addr = u8;

    fn renew(&self) -> Option<Self> {
        match self.renew {
            RenewMode::Never => None,
            RenewMode::Next => self.gen.checked_add(1).map(|g| Id {
                addr: self.addr,
                gen: g,
                renew: self.renew,
                pad: [0; 2],
            }),
            RenewMode::Same => Some(*self),
            RenewMode::Losing => self.gen.checked_sub(1).map(|g| Id {
                addr: self.addr,
                gen: g,
                renew: self.renew,
                pad: [0; 2],
            }),
        }
    }

    fn addr(&self) -> u8 {
        self.addr
    }

    fn win_addr_conflict(&self, adversary: &Self) -> bool {
        self.gen > adversary.gen
    }
}

// ---------------------------------------------------------------------------
// Codecs
// ---------------------------------------------------------------------------

#[derive(Debug, Clone, Copy, PartialEq, Eq)]
pub struct CodecErr(pub u8);
impl core::fmt::Display for CodecErr {
    fn fmt(&self, f: &mut core::fmt::Formatter<'_>) -> core::fmt::Result {
        f.write_str("codec")
    }
}
impl core::error::Error for CodecErr {}

pub const HDR: usize = 10;
pub const MEM: usize = 5;
pub const LOGN: usize = 4;

pub fn state_tag(s: State) -> u8 {
    match s {
        State::Alive => 0,
        State::Suspect => 1,
        State::Down => 2,
    }
}
pub fn tag_state(t: u8) -> Option<State> {
    match t {
        0 => Some(State::Alive),
        1 => Some(State::Suspect),
        2 => Some(State::Down),
        _ => None,
    }
}

/// (tag, id-argument, probe number)
pub fn msg_parts(m: &Message<Id>) -> (u8, Id, u8) {
    let z = Id::new(0, 0);
    match m {
        Message::Ping(n) => (0, z, *n),
        Message::Ack(n) => (1, z, *n),
        Message::PingReq {
            target,
            probe_number,
        } => (2, *target, *probe_number),
        Message::IndirectPing {
            origin,
            probe_number,
        } => (3, *origin, *probe_number),
        Message::IndirectAck {
            target,
            probe_number,
        } => (4, *target, *probe_number),
        Message::ForwardedAck {
            origin,
            probe_number,
        } => (5, *origin, *probe_number),
        Message::Announce => (6, z, 0),
        Message::Feed => (7, z, 0),
        Message::Gossip => (8, z, 0),
        Message::Broadcast => (9, z, 0),
        Message::TurnUndead => (10, z, 0),
    }
}

pub fn parts_msg(tag: u8, id: Id, n: u8) -> Option<Message<Id>> {
    Some(match tag {
        0 => Message::Ping(n),
        1 => Message::Ack(n),
        2 => Message::PingReq {
            target: id,
            probe_number: n,
        },
        3 => Message::IndirectPing {
            origin: id,
            probe_number: n,
        },
        4 => Message::IndirectAck {
            target: id,
            probe_number: n,
        },
        5 => Message::ForwardedAck {
            origin: id,
            probe_number: n,
        },
        6 => Message::Announce,
        7 => Message::Feed,
        8 => Message::Gossip,
        9 => Message::Broadcast,
        10 => Message::TurnUndead,
        _ => return None,
    })
}

/// Log of `encode_member` calls made into an *unbounded* buffer. In foca that is
/// exactly `serialize_member`, which precedes every `updates.add_or_replace`:
/// the log is the sequence of updates accepted for dissemination.
#[derive(Clone, Copy, Debug)]
pub struct EncLog {
    pub n: usize,
    pub items: [(Id, Incarnation, State); LOGN],
    pub overflow: bool,
}

impl EncLog {
    pub const fn new() -> Self {
        Self {
            n: 0,
            items: [(Id::new(0, 0), 0, State::Alive); LOGN],
            overflow: false,
        }
    }
    fn push(&mut self, m: &Member<Id>) {
        if self.n < LOGN {
            self.items[self.n] = (*m.id(), m.incarnation(), m.state());
            self.n += 1;
        } else {
            self.overflow = true;
        }
    }
    pub fn contains(&self, id: Id, inc: Incarnation, st: State) -> bool {
        let mut i = 0;
        let mut found = false;
        while i < LOGN {
            if i < self.n {
                let (a, b, c) = self.items[i];
                if a == id && b == inc && c == st {
                    found = true;
                }
            }
            i += 1;
        }
        found
    }
}

/// Fixed-size wire format: header = src(2) inc(2,BE) dst(2) tag(1) arg-id(2)
/// probe-number(1) = 10 bytes, member = id(2) inc(2,BE) state(1) = 5 bytes.
/// Total and never panics. `fail_member_after`: when Some(k), the k-th (0-based)
/// bounded `encode_member` call of this instance writes `dirty` bytes and fails.
#[derive(Clone, Copy, Debug)]
pub struct FixCodec {
    pub log: EncLog,
    pub bounded_member_calls: u8,
    pub fail_member_at: Option<u8>,
    pub dirty: u8,
}

impl FixCodec {
    pub const fn new() -> Self {
        Self {
            log: EncLog::new(),
            bounded_member_calls: 0,
            fail_member_at: None,
            dirty: 0,
        }
    }
}

const UNBOUNDED: usize = 1 << 40;

fn put_id(buf: &mut impl BufMut, id: &Id) {
    buf.put_u8(id.addr);
    buf.put_u8(id.gen);
}
fn get_id(buf: &mut impl Buf) -> Id {
    let a = buf.get_u8();
    let g = buf.get_u8();
    Id::new(a, g)
}

impl Codec<Id> for FixCodec {
    type Error = CodecErr;

    fn encode_header(&mut self, h: &Header<Id>, mut buf: impl BufMut) -> Result<(), CodecErr> {
        if buf.remaining_mut() < HDR {
            return Err(CodecErr(0));
        }
        let (tag, arg, n) = msg_parts(&h.message);
        put_id(&mut buf, &h.src);
        buf.put_u16(h.src_incarnation);
        put_id(&mut buf, &h.dst);
        buf.put_u8(tag);
        put_id(&mut buf, &arg);
        buf.put_u8(n);
        Ok(())
    }

    fn decode_header(&mut self, mut buf: impl Buf) -> Result<Header<Id>, CodecErr> {
        if buf.remaining() < HDR {
            return Err(CodecErr(0));
        }
        let src = get_id(&mut buf);
        let src_incarnation = buf.get_u16();
        let dst = get_id(&mut buf);
        let tag = buf.get_u8();
        let arg = get_id(&mut buf);
        let n = buf.get_u8();
        match parts_msg(tag, arg, n) {
            Some(message) => Ok(Header {
                src,
                src_incarnation,
                dst,
                message,
            }),
            None => Err(CodecErr(0)),
        }
    }

    fn encode_member(&mut self, m: &Member<Id>, mut buf: impl BufMut) -> Result<(), CodecErr> {
        if buf.remaining_mut() > UNBOUNDED {
            self.log.push(m);
        } else {
            let k = self.bounded_member_calls;
            self.bounded_member_calls = k.wrapping_add(1);
            if self.fail_member_at == Some(k) {
                // dirty failure: leave up to `dirty` stray bytes behind
                let mut i = 0u8;
                while i < 3 {
                    if i < self.dirty && buf.has_remaining_mut() {
                        buf.put_u8(0xEE);
                    }
                    i += 1;
                }
                return Err(CodecErr(0));
            }
        }
        if buf.remaining_mut() < MEM {
            return Err(CodecErr(0));
        }
        put_id(&mut buf, m.id());
        buf.put_u16(m.incarnation());
        buf.put_u8(state_tag(m.state()));
        Ok(())
    }

    fn decode_member(&mut self, mut buf: impl Buf) -> Result<Member<Id>, CodecErr> {
        if buf.remaining() < MEM {
            return Err(CodecErr(0));
        }
        let id = get_id(&mut buf);
        let inc = buf.get_u16();
        match tag_state(buf.get_u8()) {
            Some(st) => Ok(Member::new(id, inc, st)),
            None => Err(CodecErr(0)),
        }
    }
}

// ---------------------------------------------------------------------------
// RNG over a pre-drawn tape
// ---------------------------------------------------------------------------

pub const TAPE: usize = 8;

/// `rand::RngCore` over values drawn *before* the code under test runs, so that
/// every RNG-dependent choice ranges over all outcomes and the counterexample's
/// value list is independent of the path taken.
#[derive(Clone, Copy, Debug)]
pub struct TapeRng {
    pub vals: [u64; TAPE],
    pub pos: usize,
    pub exhausted: bool,
}

impl TapeRng {
    /// Narrow tape: each draw is `v << 56` for a symbolic byte `v`. foca samples
    /// with widening multiplication (`(x * n) >> width`), which is monotone in
    /// `x`, so these 256 values realise *every* outcome of every range of size
    /// <= 256 (member selection, insertion position); other values of `x` only
    /// repeat outcomes. Shuffles (which decode a permutation from one draw) get
    /// the wide tape in their dedicated harnesses.
    pub fn arb(s: &mut impl Src) -> Self {
        let vals = [
            (s.u8() as u64) << 56,
            (s.u8() as u64) << 56,
            (s.u8() as u64) << 56,
            (s.u8() as u64) << 56,
            (s.u8() as u64) << 56,
            (s.u8() as u64) << 56,
            (s.u8() as u64) << 56,
            (s.u8() as u64) << 56,
        ];
        Self {
            vals,
            pos: 0,
            exhausted: false,
        }
    }
    /// Wide tape: every draw is a fully symbolic 64-bit value.
    pub fn arb_wide(s: &mut impl Src) -> Self {
        let vals = [
            s.u64(),
            s.u64(),
            s.u64(),
            s.u64(),
            s.u64(),
            s.u64(),
            s.u64(),
            s.u64(),
        ];
        Self {
            vals,
            pos: 0,
            exhausted: false,
        }
    }
    pub const fn fixed(v: u64) -> Self {
        Self {
            vals: [v; TAPE],
            pos: 0,
            exhausted: false,
        }
    }
    fn take(&mut self) -> u64 {
        if self.pos < TAPE {
            let v = self.vals[self.pos];
            self.pos += 1;
            v
        } else {
            // more draws than the stated tape bound: outside the claim
            self.exhausted = true;
            #[cfg(kani)]
            kani::assume(false);
            0
        }
    }
}

impl rand::RngCore for TapeRng {
    fn next_u32(&mut self) -> u32 {
        (self.take() >> 32) as u32
    }
    fn next_u64(&mut self) -> u64 {
        self.take()
    }
    fn fill_bytes(&mut self, dst: &mut [u8]) {
        for b in dst.iter_mut() {
            *b = self.take() as u8;
        }
    }
}

// ---------------------------------------------------------------------------
// Recording runtime
// ---------------------------------------------------------------------------

pub const PKT: usize = 36;
pub const NS: usize = 4;
pub const NT: usize = 6;
pub const NN: usize = 6;

#[derive(Clone, Copy, Debug)]
pub struct Sent {
    pub dst: Id,
    pub len: usize,
    pub data: [u8; PKT],
}

#[derive(Clone, Copy, Debug, PartialEq, Eq)]
pub enum Note {
    Up(Id),
    Down(Id),
    Rename(Id, Id),
    Active,
    Idle,
    Defunct,
    Rejoin(Id),
    Other,
}

/// `Runtime` that records everything in fixed arrays, in call order.
#[derive(Clone, Debug)]
pub struct LogRt {
    pub ns: usize,
    pub sent: [Sent; NS],
    pub nt: usize,
    pub timers: [Option<(Timer<Id>, Duration)>; NT],
    pub nn: usize,
    pub notes: [Note; NN],
    pub overflow: bool,
    /// global order of effects: 0 = send, 1 = timer, 2 = notification
    pub order: [u8; NS + NT + NN],
    pub no: usize,
}

impl LogRt {
    pub fn new() -> Self {
        Self {
            ns: 0,
            sent: [Sent {
                dst: Id::new(0, 0),
                len: 0,
                data: [0; PKT],
            }; NS],
            nt: 0,
            timers: [None, None, None, None, None, None],
            nn: 0,
            notes: [Note::Other; NN],
            overflow: false,
            order: [0; NS + NT + NN],
            no: 0,
        }
    }
    pub fn is_silent(&self) -> bool {
        self.ns == 0 && self.nt == 0 && self.nn == 0 && !self.overflow
    }
    fn ord(&mut self, k: u8) {
        if self.no < NS + NT + NN {
            self.order[self.no] = k;
            self.no += 1;
        }
    }
    pub fn has_note(&self, n: Note) -> bool {
        let mut i = 0;
        let mut f = false;
        while i < NN {
            if i < self.nn && self.notes[i] == n {
                f = true;
            }
            i += 1;
        }
        f
    }
    pub fn count_note(&self, n: Note) -> usize {
        let mut i = 0;
        let mut c = 0;
        while i < NN {
            if i < self.nn && self.notes[i] == n {
                c += 1;
            }
            i += 1;
        }
        c
    }
    pub fn count_timer(&self, t: &Timer<Id>) -> usize {
        let mut i = 0;
        let mut c = 0;
        while i < NT {
            if i < self.nt {
                if let Some((x, _)) = &self.timers[i] {
                    if x == t {
                        c += 1;
                    }
                }
            }
            i += 1;
        }
        c
    }
    pub fn timer_after(&self, t: &Timer<Id>) -> Option<Duration> {
        let mut i = 0;
        let mut r = None;
        while i < NT {
            if i < self.nt {
                if let Some((x, d)) = &self.timers[i] {
                    if x == t && r.is_none() {
                        r = Some(*d);
                    }
                }
            }
            i += 1;
        }
        r
    }
    /// header of the i-th datagram, decoded with the kit's fixed format
    pub fn header(&self, i: usize) -> Option<Header<Id>> {
        if i >= self.ns || self.sent[i].len < HDR {
            return None;
        }
        let d = &self.sent[i].data;
        let msg = parts_msg(d[6], Id::new(d[7], d[8]), d[9]);
        msg.map(|message| Header {
            src: Id::new(d[0], d[1]),
            src_incarnation: u16::from_be_bytes([d[2], d[3]]),
            dst: Id::new(d[4], d[5]),
            message,
        })
    }
    pub fn tag(&self, i: usize) -> u8 {
        self.sent[i].data[6]
    }
}

impl Runtime<Id> for LogRt {
    fn notify(&mut self, n: Notification<'_, Id>) {
        let v = match n {
            Notification::MemberUp(a) => Note::Up(*a),
            Notification::MemberDown(a) => Note::Down(*a),
            Notification::Rename(a, b) => Note::Rename(*a, *b),
            Notification::Active => Note::Active,
            Notification::Idle => Note::Idle,
            Notification::Defunct => Note::Defunct,
            Notification::Rejoin(a) => Note::Rejoin(*a),
            #[allow(unreachable_patterns)]
            _ => Note::Other,
        };
        if self.nn < NN {
            self.notes[self.nn] = v;
            self.nn += 1;
            self.ord(2);
        } else {
            self.overflow = true;
        }
    }

    fn send_to(&mut self, to: Id, data: &[u8]) {
        if self.ns < NS && data.len() <= PKT {
            let s = &mut self.sent[self.ns];
            s.dst = to;
            s.len = data.len();
            // concrete indices only (a symbolic-length memcpy / symbolic index into
            // the log would drag CBMC's array theory in)
            let mut i = 0;
            while i < PKT {
                if i < data.len() {
                    s.data[i] = data[i];
                }
                i += 1;
            }
            self.ns += 1;
            self.ord(0);
        } else {
            self.overflow = true;
        }
    }

    fn submit_after(&mut self, event: Timer<Id>, after: Duration) {
        if self.nt < NT {
            self.timers[self.nt] = Some((event, after));
            self.nt += 1;
            self.ord(1);
        } else {
            self.overflow = true;
        }
    }
}

// ---------------------------------------------------------------------------
// Broadcast handler
// ---------------------------------------------------------------------------

#[derive(Clone, Copy, Debug, PartialEq, Eq)]
pub struct BKey {
    pub k: u8,
    pub v: u8,
}
impl Invalidates for BKey {
    fn invalidates(&self, o: &Self) -> bool {
        self.k == o.k && self.v >= o.v
    }
}

pub const HLOG: usize = 3;
pub const ITEM: usize = 6;

/// Broadcast handler: item = [k, v, ...]; answers are pre-drawn
/// (`mode`: 0 = Some(key from the first two bytes), 1 = None, 2 = Err).
/// Logs every `receive_item` call (bytes, length, sender).
#[derive(Clone, Copy, Debug)]
pub struct LogHandler {
    pub mode: u8,
    /// recipients predicate: bit (addr & 7) of this mask
    pub allow_mask: u8,
    pub n: usize,
    pub items: [([u8; ITEM], usize, Option<Id>); HLOG],
    pub overflow: bool,
}

impl LogHandler {
    pub const fn new(mode: u8, allow_mask: u8) -> Self {
        Self {
            mode,
            allow_mask,
            n: 0,
            items: [([0; ITEM], 0, None); HLOG],
            overflow: false,
        }
    }
    pub fn allows(&self, id: &Id) -> bool {
        (self.allow_mask >> (id.addr & 7)) & 1 == 1
    }
}

impl BroadcastHandler<Id> for LogHandler {
    type Key = BKey;
    type Error = CodecErr;

    fn receive_item(&mut self, data: &[u8], sender: Option<&Id>) -> Result<Option<BKey>, CodecErr> {
        if self.n < HLOG && data.len() <= ITEM {
            let mut b = [0u8; ITEM];
            let mut i = 0;
            while i < ITEM {
                if i < data.len() {
                    b[i] = data[i];
                }
                i += 1;
            }
            self.items[self.n] = (b, data.len(), sender.copied());
            self.n += 1;
        } else {
            self.overflow = true;
        }
        match self.mode {
            0 => Ok(Some(BKey {
                k: data[0],
                v: if data.len() > 1 { data[1] } else { 0 },
            })),
            1 => Ok(None),
            _ => Err(CodecErr(0)),
        }
    }

    fn should_add_broadcast_data(&self, member: &Id) -> bool {
        self.allows(member)
    }
}

// ---------------------------------------------------------------------------
// Spec helpers (written independently of foca)
// ---------------------------------------------------------------------------

/// SWIM precedence as a number: a record (inc, state) is overridden by exactly
/// the records of strictly greater rank. Down outranks everything.
pub fn rank(inc: Incarnation, st: State) -> u32 {
    match st {
        State::Down => u32::MAX,
        State::Alive => (inc as u32) * 2,
        State::Suspect => (inc as u32) * 2 + 1,
    }
}

pub fn arb_state(s: &mut impl Src) -> State {
    match s.below(3) {
        0 => State::Alive,
        1 => State::Suspect,
        _ => State::Down,
    }
}

pub fn arb_member(s: &mut impl Src) -> Member<Id> {
    let id = Id::arb(s);
    let inc = s.u16();
    let st = arb_state(s);
    Member::new(id, inc, st)
}
