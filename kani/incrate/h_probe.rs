use super::kit::*;
pub fn zz_smoke<S: Src>(s: &mut S) {
    let a = s.u8();
    vcover!(a == 1, "smoke");
    vassert!(a as u16 + 1 > 0, "smoke: trivially true");
}

