//! Step obligations for the public API calls, each on an arbitrary Inv-state.
use super::kit::*;
use super::oracle::*;
use super::state::*;
use crate::{ConnectionState, Error, Identity, Incarnation, Member, State, Timer};

type Rec = (Id, Incarnation, State);

/// SWIM precedence, written from the paper / property C01 (not from foca):
/// what an instance must hold for an address after hearing `u`.
pub fn spec_apply(r: Option<Rec>, u: Rec) -> Rec {
    match r {
        None => u,
        Some(r) => {
            if r.0 == u.0 {
                if r.2 != State::Down && rank(u.1, u.2) > rank(r.1, r.2) {
                    u
                } else {
                    r
                }
            } else if u.0.gen > r.0.gen {
                u
            } else {
                r
            }
        }
    }
}

/// Expected outcome of learning that the current identity is dead.
fn spec_renew(me: Id) -> Option<Id> {
    match me.renew {
        RenewMode::Next => {
            if me.gen < u8::MAX {
                Some(Id {
                    addr: me.addr,
                    gen: me.gen + 1,
                    renew: me.renew,
                    pad: [0; 2],
                })
            } else {
                None
            }
        }
        _ => None,
    }
}

/// Post-conditions of "the instance learned its identity is dead".
pub fn check_death(pre: &Snap, post: &Snap, f: &F, rt: &LogRt) {
    let me = pre.identity;
    if pre.conn == ConnectionState::Undead && post.identity == me {
        // an instance that already is defunct may ignore being told again
        vassert!(post.conn == ConnectionState::Undead, "c10: never carries on as active under a dead identity");
        return;
    }
    match spec_renew(me) {
        Some(new) => {
            vassert!(post.identity == new, "c10: switches to the renewed identity that wins against the old one");
            vassert!(rt.count_note(Note::Rejoin(new)) == 1 && !rt.has_note(Note::Defunct), "c10: renewal is notified as Rejoin, not Defunct");
            vassert!(post.incarnation == 0, "c10: incarnation restarts at 0 for the new identity");
            vassert!(post.conn != ConnectionState::Undead, "c10: a renewed instance is not defunct");
            if pre.conn != ConnectionState::Undead {
                vassert!(f.codec.log.contains(me, 0, State::Down), "c10: the old identity is gossiped as Down");
            }
            vassert!(post.token != pre.token, "c13: identity change starts a new timer epoch");
            vassert!(post.probe.direct.is_none() && post.probe.indirect.is_empty(), "c13: a renewed identity starts with no probe round in flight");
        }
        None => {
            vassert!(post.identity == me, "c10: without a winning renewal the identity is kept");
            vassert!(post.conn == ConnectionState::Undead, "c10: never carries on as active under a dead identity");
            vassert!(rt.has_note(Note::Defunct) && rt.nn >= 1, "c10: becoming defunct is notified");
            vassert!(post.token != pre.token, "c13: going defunct starts a new timer epoch");
            vassert!(post.probe.direct.is_none(), "c12: going defunct aborts the probe round");
        }
    }
}

/// Gossip fan-out: `Gossip` datagrams to min(fanout, active) distinct active members.
pub fn check_gossip_sends(pre_active: &IdSet, fanout: usize, rt: &LogRt, from: usize, upto: usize) {
    let want = if pre_active.n < fanout { pre_active.n } else { fanout };
    vassert!(upto - from == want, "c15: gossip goes to min(num_indirect_probes, active) members");
    let mut d = 0;
    while d < NS {
        if d >= from && d < upto {
            vassert!(rt.tag(d) == 8, "c18: only Gossip datagrams are sent when gossiping");
            vassert!(pre_active.contains(rt.sent[d].dst), "c15: gossip goes to active members");
            let mut e = 0;
            while e < d {
                if e >= from {
                    vassert!(rt.sent[e].dst != rt.sent[d].dst, "c15: gossip targets are distinct");
                }
                e += 1;
            }
        }
        d += 1;
    }
}

/// `apply_many(once(u), do_broadcast)`.
fn a_apply1_k<S: Src>(s: &mut S, k: usize) {
    let mut f = arb_foca(s, Shape::k(k));
    let pre = snap(&f);
    let u = arb_member(s);
    let do_broadcast = s.bool();
    let mut rt = LogRt::new();
    let r = f.apply_many(core::iter::once(u.clone()), do_broadcast, &mut rt);
    let post = snap(&f);
    vassert!(r.is_ok(), "c06: apply_many with a total codec never fails");

    let me = pre.identity;
    let uid = *u.id();
    let about_self = uid == me;
    let own_addr = uid.addr == me.addr;
    let top = if u.incarnation() > pre.incarnation { u.incarnation() } else { pre.incarnation };
    let dies = about_self && (u.state() == State::Down || (u.state() == State::Suspect && top == u16::MAX));
    let refutes = about_self && u.state() == State::Suspect && !dies && u.incarnation() >= pre.incarnation;

    let mut cx = Ctx::quiet();
    cx.new_addrs = 1;
    cx.may_die = dies;
    cx.must_die = dies && pre.conn != ConnectionState::Undead;
    cx.may_change_identity = dies;
    cx.may_bump = refutes;
    post_common(&pre, &post, &f, &rt, cx);

    vcover!(dies && pre.identity.renew == RenewMode::Next && pre.identity.gen < 255, "told that own identity is dead, renewable");
    vcover!(dies && pre.identity.renew == RenewMode::Never, "told that own identity is dead, not renewable");
    vcover!(dies && pre.identity.renew == RenewMode::Losing, "told that own identity is dead, renew() yields a losing identity");
    vcover!(refutes, "suspicion about own identity refuted");
    vcover!(own_addr && !about_self, "update about another identity of own address");
    vcover!(!own_addr && pre.by_addr(uid.addr).is_some(), "update about a known third party");
    vcover!(!own_addr && pre.by_addr(uid.addr).is_none(), "update about an unknown third party");
    vcover!(!own_addr && pre.by_addr(uid.addr).map(|r| r.0 != uid).unwrap_or(false), "address conflict");

    if about_self {
        // the instance's own identity is never stored
        vassert!(post.same_members(&pre), "c01: an update about oneself changes no record");
        vassert!(dies || post.enc_n == pre.enc_n, "c10: refutation needs no update of its own (the incarnation travels in every header)");
        match u.state() {
            State::Alive => {
                // (an instance that is idle but already knows members - the state right
                // after an identity change - is connected by any apply_many call)
                let wakes = pre.conn == ConnectionState::Disconnected && pre.num_active > 0;
                vcover!(wakes, "idle instance with known members wakes up");
                vassert!(wakes || (rt.is_silent() && post.identical(&pre)), "c01: hearing that oneself is alive is a no-op");
                vassert!(rt.ns == 0 && post.same_members(&pre) && post.identity == pre.identity && post.incarnation == pre.incarnation
                    && post.token == pre.token && post.enc_n == pre.enc_n && post.probe == pre.probe,
                    "c01: hearing that oneself is alive changes no protocol state");
            }
            State::Suspect if !dies => {
                if refutes {
                    vassert!(post.incarnation > pre.incarnation && post.incarnation > u.incarnation(),
                        "c10: after a suspicion every later datagram carries a strictly greater incarnation");
                    vassert!(post.incarnation == u.incarnation() + 1, "c10: the refuting incarnation is the suspected one plus one");
                } else {
                    vassert!(post.incarnation == pre.incarnation, "c10: a suspicion about an older incarnation does not bump");
                }
                vassert!((rt.nn == 0 && rt.nt == 0) || pre.conn == ConnectionState::Disconnected, "c10: refuting notifies and schedules nothing");
                let mut d = 0;
                while d < NS {
                    if d < rt.ns {
                        match rt.header(d) {
                            Some(h) => vassert!(h.src_incarnation == post.incarnation, "c10: every datagram of the step carries the new incarnation"),
                            None => {}
                        }
                    }
                    d += 1;
                }
                check_gossip_sends(&active_set(&pre), pre.cfg_fanout, &rt, 0, rt.ns);
                vassert!((post.conn == pre.conn || pre.conn == ConnectionState::Disconnected) && post.token == pre.token && post.identity == pre.identity, "c10: refuting keeps identity and epoch");
            }
            _ => check_death(&pre, &post, &f, &rt),
        }
        return;
    }

    // ---- an update about somebody else ----------------------------------------
    let eff: Rec = if own_addr {
        // another identity of our own address is recorded as Down, whatever it claims
        (uid, 0, State::Down)
    } else {
        (uid, u.incarnation(), u.state())
    };
    let before = pre.by_addr(uid.addr);
    let want = spec_apply(before, eff);
    vassert!(post.by_addr(uid.addr) == Some(want), "c01: the record moves forward in SWIM precedence order (join of old record and update)");
    let changed = before != Some(want);
    // frame: every other address untouched
    let mut i = 0;
    while i < KMAX {
        if i < pre.n && pre.recs[i].0.addr != uid.addr {
            vassert!(post.by_addr(pre.recs[i].0.addr) == Some(pre.recs[i]), "c01: records of other addresses are untouched");
        }
        i += 1;
    }
    vassert!(post.n == pre.n + (before.is_none() as usize), "c09: at most one record per address told about");
    // dissemination (C15 gating, C10 no fabrication)
    if changed && do_broadcast {
        vassert!(post.enc_n == pre.enc_n + 1 && f.codec.log.contains(eff.0, eff.1, eff.2),
            "c15: exactly the accepted update is queued for gossip");
    } else {
        vassert!(post.enc_n == pre.enc_n, "c15: nothing is queued when nothing changed or broadcasting is disabled");
    }
    // forgetting (C11)
    let rm = Timer::RemoveDown(uid);
    if changed && want.2 == State::Down {
        vassert!(rt.count_timer(&rm) == 1 && rt.timer_after(&rm) == Some(D_REMOVE), "c11: every newly Down member gets exactly one forget-timer");
    } else {
        vassert!(rt.count_timer(&rm) == 0, "c11: no forget-timer without a new Down record");
    }
    vassert!(rt.ns == 0, "c18: learning about third parties sends nothing");
    vassert!(post.identity == pre.identity && post.incarnation == pre.incarnation, "c10: third-party updates never touch own identity/incarnation");
    if !changed {
        vassert!(rt.nn == 0 || pre.conn == ConnectionState::Disconnected, "c08: an update that changes nothing notifies nothing");
    }
}

pub fn a_apply1_k1<S: Src>(s: &mut S) {
    a_apply1_k(s, 1)
}
pub fn a_apply1_k2<S: Src>(s: &mut S) {
    a_apply1_k(s, 2)
}
pub fn a_apply1_k3<S: Src>(s: &mut S) {
    a_apply1_k(s, 3)
}

/// `announce(dst)`.
pub fn a_announce<S: Src>(s: &mut S) {
    let mut f = arb_foca(s, Shape::k(1));
    let pre = snap(&f);
    let dst = Id::arb(s);
    let mut rt = LogRt::new();
    let r = f.announce(dst, &mut rt);
    let post = snap(&f);
    vassert!(r.is_ok(), "c06: announce never fails with a total codec");
    let mut cx = Ctx::quiet();
    cx.relay_dst = Some(dst); // destination chosen by the user
    post_common(&pre, &post, &f, &rt, cx);
    vassert!(rt.ns == 1 && rt.nn == 0 && rt.nt == 0, "c07: announce sends exactly one datagram");
    vassert!(rt.sent[0].dst == dst && rt.sent[0].len == HDR && rt.tag(0) == 6, "c07: Announce carries nothing after the header");
    vassert!(post.identical(&pre), "c17: announce changes no state");
}

/// `gossip()`.
pub fn a_gossip<S: Src>(s: &mut S) {
    let mut sh = Shape::k(3);
    sh.backlog = 1;
    let mut f = arb_foca(s, sh);
    let pre = snap(&f);
    let mut rt = LogRt::new();
    let r = f.gossip(&mut rt);
    let post = snap(&f);
    vassert!(r.is_ok(), "c06: gossip never fails with a total codec");
    post_common(&pre, &post, &f, &rt, Ctx::quiet());
    vassert!(rt.nn == 0 && rt.nt == 0, "c18: gossip notifies and schedules nothing");
    check_gossip_sends(&active_set(&pre), pre.cfg_fanout, &rt, 0, rt.ns);
    vcover!(rt.ns == 2, "gossip to two members");
    vassert!(post.same_members(&pre) && post.conn == pre.conn && post.token == pre.token
        && post.incarnation == pre.incarnation && post.probe == pre.probe, "c17: gossip changes no protocol state");
}

/// `leave_cluster()`.
pub fn a_leave<S: Src>(s: &mut S) {
    let mut f = arb_foca(s, Shape::k(2));
    let pre = snap(&f);
    let mut rt = LogRt::new();
    let r = f.leave_cluster(&mut rt);
    let post = snap(&f);
    vassert!(r.is_ok(), "c06: leave_cluster never fails with a total codec");
    let mut cx = Ctx::quiet();
    cx.may_die = true;
    cx.must_die = true;
    post_common(&pre, &post, &f, &rt, cx);
    vassert!(post.conn == ConnectionState::Undead && rt.count_note(Note::Defunct) == 1 && rt.nn == 1,
        "c08: leave_cluster ends Defunct");
    vassert!(post.enc_n == pre.enc_n + 1 && f.codec.log.contains(pre.identity, 0, State::Down),
        "c03: leaving gossips our own identity as Down");
    check_gossip_sends(&active_set(&pre), pre.cfg_fanout, &rt, 0, rt.ns);
    vassert!(post.token != pre.token && post.probe.direct.is_none(), "c13: leaving ends the timer epoch and the probe round");
    vassert!(post.identity == pre.identity && post.same_members(&pre), "c08: leaving changes no record");
    vassert!(rt.nt == 0, "c13: leaving schedules nothing");
}

/// `change_identity(new)` (same address: the documented use).
pub fn a_change_identity<S: Src>(s: &mut S) {
    let mut f = arb_foca(s, Shape::k(2));
    let pre = snap(&f);
    let mut new = Id::arb(s);
    new.renew = Id::arb_renew(s);
    s.assume(new.addr == pre.identity.addr);
    let mut rt = LogRt::new();
    let r = f.change_identity(new, &mut rt);
    let post = snap(&f);
    vcover!(new == pre.identity, "same identity");
    vcover!(new != pre.identity && pre.conn == ConnectionState::Undead, "change identity while defunct");
    if new == pre.identity {
        vassert!(matches!(r, Err(Error::SameIdentity)), "c17: change_identity(same) is rejected");
        vassert!(rt.is_silent() && post.identical(&pre), "c17: a rejected change_identity leaves no trace");
        return;
    }
    vassert!(r.is_ok(), "c06: change_identity never fails with a total codec");
    let mut cx = Ctx::quiet();
    cx.resets = true;
    cx.may_change_identity = true;
    post_common(&pre, &post, &f, &rt, cx);
    vassert!(post.identity == new && post.renew == new.renew, "c10: the new identity is in use");
    vassert!(post.incarnation == 0, "c10: incarnation starts at 0 for each identity");
    vassert!(post.conn == ConnectionState::Disconnected, "c08: a changed identity starts idle until it hears from the cluster");
    vassert!(post.token != pre.token && post.probe.direct.is_none(), "c13: identity change starts a new timer epoch and aborts the probe round");
    if pre.conn != ConnectionState::Undead {
        vassert!(post.enc_n == pre.enc_n + 1 && f.codec.log.contains(pre.identity, 0, State::Down),
            "c10: the previous identity is gossiped as Down");
    } else {
        vassert!(post.enc_n == pre.enc_n, "c10: an identity already known Down is not declared again");
    }
    check_gossip_sends(&active_set(&pre), pre.cfg_fanout, &rt, 0, rt.ns);
    let mut d = 0;
    while d < NS {
        if d < rt.ns {
            if let Some(h) = rt.header(d) {
                vassert!(h.src == new && h.src_incarnation == 0, "c07: datagrams after the change carry the new identity");
            }
        }
        d += 1;
    }
    vassert!(rt.nn == 0 && rt.nt == 0 && post.same_members(&pre), "c08: changing identity notifies nothing and keeps the records");
}

/// `reuse_down_identity()`.
pub fn a_reuse<S: Src>(s: &mut S) {
    let mut f = arb_foca(s, Shape::k(2));
    let pre = snap(&f);
    let r = f.reuse_down_identity();
    let post = snap(&f);
    vcover!(pre.conn == ConnectionState::Undead, "reuse while defunct");
    if pre.conn != ConnectionState::Undead {
        vassert!(matches!(r, Err(Error::NotUndead)), "c17: reuse_down_identity is rejected unless defunct");
        vassert!(post.identical(&pre), "c17: a rejected reuse_down_identity leaves no trace");
        return;
    }
    vassert!(r.is_ok(), "c10: a defunct instance may reuse its identity");
    let rt = LogRt::new();
    let mut cx = Ctx::quiet();
    cx.resets = true;
    post_common(&pre, &post, &f, &rt, cx);
    vassert!(post.identity == pre.identity && post.incarnation == 0 && post.conn == ConnectionState::Disconnected,
        "c10: reusing a down identity restarts at incarnation 0, idle");
    vassert!(post.token != pre.token && post.probe.direct.is_none(), "c13: reuse starts a new timer epoch");
    vassert!(post.same_members(&pre) && post.enc_n == pre.enc_n, "c10: reuse changes no record and queues nothing");
}
