//! Step obligations for `handle_timer`, one per `Timer` variant, each on an
//! arbitrary Inv-state. Assertion prefixes name the property an obligation
//! belongs to.
use super::kit::*;
use super::oracle::*;
use super::state::*;
use crate::{ConnectionState, Error, Message, State, Timer};

fn is_conn(c: ConnectionState) -> bool {
    c == ConnectionState::Connected
}

/// stale-epoch timers (any variant but RemoveDown) have no effect at all
fn stale<S: Src>(s: &mut S, which: u8) {
    let mut f = arb_foca(s, Shape::k(2));
    let pre = snap(&f);
    let token = s.u8();
    s.assume(token != pre.token);
    let id = Id::arb(s);
    let inc = s.u16();
    let t = match which {
        0 => Timer::ProbeRandomMember(token),
        1 => Timer::SendIndirectProbe {
            probed_id: id,
            token,
        },
        2 => Timer::ChangeSuspectToDown {
            member_id: id,
            incarnation: inc,
            token,
        },
        3 => Timer::PeriodicAnnounce(token),
        4 => Timer::PeriodicGossip(token),
        _ => Timer::PeriodicAnnounceDown(token),
    };
    let mut rt = LogRt::new();
    let r = f.handle_timer(t, &mut rt);
    let post = snap(&f);
    vassert!(r.is_ok(), "c13+c17: a stale-epoch timer is not an error");
    vassert!(rt.is_silent(), "c13+c17: a stale-epoch timer causes no datagram, timer or notification");
    vassert!(post.identical(&pre), "c13+c17: a stale-epoch timer changes no state and draws no randomness");
    vcover!(pre.conn == ConnectionState::Connected, "stale timer while connected");
}

pub fn c13_stale_probe<S: Src>(s: &mut S) {
    stale(s, 0)
}
pub fn c13_stale_indirect<S: Src>(s: &mut S) {
    stale(s, 1)
}
pub fn c13_stale_suspect<S: Src>(s: &mut S) {
    stale(s, 2)
}
pub fn c13_stale_announce<S: Src>(s: &mut S) {
    stale(s, 3)
}
pub fn c13_stale_gossip<S: Src>(s: &mut S) {
    stale(s, 4)
}
pub fn c13_stale_announce_down<S: Src>(s: &mut S) {
    stale(s, 5)
}

/// `ProbeRandomMember(current token)`: end of a probe round + start of the next.
fn t_probe_k<S: Src>(s: &mut S, k: usize) {
    let mut f = arb_foca(s, Shape::k(k));
    let pre = snap(&f);
    let mut rt = LogRt::new();
    let r = f.handle_timer(Timer::ProbeRandomMember(pre.token), &mut rt);
    let post = snap(&f);

    if !is_conn(pre.conn) {
        vassert!(matches!(r, Err(Error::NotConnected)), "c13: probe timer while not connected is rejected");
        vassert!(rt.is_silent() && post.identical(&pre), "c17: rejected probe timer leaves no trace");
        return;
    }
    let mut cx = Ctx::quiet();
    cx.own_timers[0] = 1;
    post_common(&pre, &post, &f, &rt, cx);

    let valid = pre.probe.direct.is_none() || pre.probe.reached;
    let evidence = pre.probe.direct_ack_ok || pre.probe.indirect_ack_count > 0;
    vcover!(valid && !evidence && pre.probe.direct.is_some(), "round ended without evidence");
    vcover!(valid && evidence, "round ended with evidence");
    vcover!(!valid, "incomplete probe cycle");

    if valid {
        vassert!(r.is_ok(), "c13: timers delivered in order never make handle_timer fail");
    } else {
        vassert!(matches!(r, Err(Error::IncompleteProbeCycle)), "c13: out-of-order delivery yields IncompleteProbeCycle");
    }

    // ---- end of the previous round (C12) ------------------------------------
    let token = pre.token;
    let mut n_suspect_timers = 0;
    let mut i = 0;
    while i < NT {
        if i < rt.nt {
            if let Some((Timer::ChangeSuspectToDown { .. }, _)) = &rt.timers[i] {
                n_suspect_timers += 1;
            }
        }
        i += 1;
    }
    vassert!(n_suspect_timers <= 1, "c12: at most one suspicion timeout per round");
    match (&pre.probe.direct, valid && !evidence) {
        (Some(target), true) => {
            let tid = *target.id();
            let tinc = target.incarnation();
            if let Some((rid, rinc, rst)) = pre.by_addr(tid.addr) {
                if rid == tid && rst != State::Down && rinc <= tinc {
                    vcover!(rst == State::Alive, "failed probe of an Alive member");
                    let q = post.by_addr(tid.addr);
                    vassert!(q == Some((tid, tinc, State::Suspect)) || (rst == State::Suspect && rinc == tinc && q == Some((rid, rinc, rst))),
                        "c12: a probe round without evidence makes the probed member Suspect at the probed incarnation");
                    let t = Timer::ChangeSuspectToDown {
                        member_id: tid,
                        incarnation: tinc,
                        token,
                    };
                    vassert!(rt.count_timer(&t) == 1 && rt.timer_after(&t) == Some(D_SUSPECT),
                        "c12: exactly one suspicion timeout is scheduled after suspect_to_down_after");
                    if rst == State::Alive {
                        vassert!(f.codec.log.contains(tid, tinc, State::Suspect), "c15: the suspicion is queued for gossip");
                    }
                } else if rid == tid {
                    vassert!(post.by_addr(tid.addr) == Some((rid, rinc, rst)),
                        "c12: a member known at a higher incarnation or Down is not suspected");
                    if rst == State::Down {
                        vassert!(n_suspect_timers == 0, "c12: no suspicion timeout for a Down member");
                    }
                }
            } else {
                vassert!(n_suspect_timers == 0 && post.by_addr(tid.addr).is_none(),
                    "c12: a forgotten member is not suspected");
            }
        }
        _ => {
            vassert!(n_suspect_timers == 0, "c12: a round that ended on evidence (or was aborted) raises no suspicion");
            vassert!(post.same_members(&pre), "c12: a round that ended on evidence changes no record");
            vassert!(post.enc_n == pre.enc_n, "c15: nothing queued for gossip without a membership change");
        }
    }
    // (a probed identity that conflicts with the record now held for its address
    // goes through address-conflict resolution instead: Rename/MemberUp allowed)
    let conflict = match &pre.probe.direct {
        Some(t) => match pre.by_addr(t.id().addr) {
            Some((rid, _, _)) => rid != *t.id(),
            None => false,
        },
        None => false,
    };
    if !conflict {
        vassert!(rt.nn == 0, "c12: suspecting a member notifies nothing (it stays active)");
    }

    // ---- start of the next round (C14, C13) -----------------------------------
    vassert!(rt.ns == 1, "c14: each probe round pings exactly one member");
    let h = rt.header(0);
    match h {
        Some(h) => {
            let n = pre.probe.probe_number.wrapping_add(1);
            vassert!(h.message == Message::Ping(n), "c12: the round's Ping carries the new probe number");
            vassert!(post.is_active(h.dst), "c14: never pings a Down member");
            vassert!(h.dst.addr != pre.identity.addr, "c14: never pings itself");
            vassert!(post.probe.direct.as_ref().map(|m| *m.id()) == Some(h.dst)
                && post.probe.probe_number == n
                && !post.probe.direct_ack_ok && post.probe.indirect_ack_count == 0
                && post.probe.indirect.is_empty() && !post.probe.reached,
                "c12: a new round starts with no evidence");
            let ti = Timer::SendIndirectProbe {
                probed_id: h.dst,
                token,
            };
            vassert!(rt.count_timer(&ti) == 1 && rt.timer_after(&ti) == Some(D_RTT),
                "c13: exactly one indirect-probe timer per round, after probe_rtt");
        }
        None => vassert!(false, "c07: ping has a header"),
    }
    let tp = Timer::ProbeRandomMember(token);
    vassert!(rt.count_timer(&tp) == 1 && rt.timer_after(&tp) == Some(D_PERIOD),
        "c13: exactly one next probe timer, after probe_period");
    vassert!(rt.nt == 2 + n_suspect_timers, "c13: no other timer is scheduled by a probe round");
    vassert!(post.token == pre.token && post.conn == pre.conn, "c13: a probe round keeps the epoch");
}

pub fn t_probe_k2<S: Src>(s: &mut S) {
    t_probe_k(s, 2)
}
pub fn t_probe_k3<S: Src>(s: &mut S) {
    t_probe_k(s, 3)
}

/// `SendIndirectProbe(probed, current token)`.
fn t_indirect_k<S: Src>(s: &mut S, k: usize) {
    let mut f = arb_foca(s, Shape::k(k));
    let pre = snap(&f);
    let probed = Id::arb(s);
    let mut rt = LogRt::new();
    let r = f.handle_timer(
        Timer::SendIndirectProbe {
            probed_id: probed,
            token: pre.token,
        },
        &mut rt,
    );
    let post = snap(&f);
    vassert!(r.is_ok(), "c13: SendIndirectProbe never fails");
    post_common(&pre, &post, &f, &rt, Ctx::quiet());
    vassert!(rt.nn == 0 && rt.nt == 0, "c12: the indirect stage notifies and schedules nothing");
    vassert!(post.same_members(&pre) && post.token == pre.token && post.conn == pre.conn && post.enc_n == pre.enc_n,
        "c12: the indirect stage changes no membership state");

    let probing = pre.probe.direct.as_ref().map(|m| *m.id()) == Some(probed);
    let evidence = pre.probe.direct_ack_ok || pre.probe.indirect_ack_count > 0;
    let go = probing && !evidence && pre.is_active(probed);
    vcover!(go, "indirect probing starts");
    vcover!(probing && evidence, "ack arrived in time");
    vcover!(probing && !evidence && !pre.is_active(probed), "target not active any more");
    if !go {
        vassert!(rt.ns == 0, "c12: indirect requests only when no Ack arrived and the target is still active");
        vassert!(post.probe.indirect == pre.probe.indirect, "c12: no helper recorded without a request");
    } else {
        // number of eligible helpers
        let mut eligible = 0;
        let mut i = 0;
        while i < KMAX {
            if i < pre.n && pre.recs[i].2 != State::Down && pre.recs[i].0 != probed {
                eligible += 1;
            }
            i += 1;
        }
        let want = if eligible < pre.cfg_fanout { eligible } else { pre.cfg_fanout };
        vcover!(k < 3 || want == 2, "two helpers asked (K >= 3)");
        vassert!(rt.ns == want, "c12: asks min(num_indirect_probes, available) helpers");
        let first_firing = pre.probe.indirect.is_empty();
        if first_firing {
            vassert!(post.probe.indirect.len() == rt.ns, "c12: exactly the asked members are recorded as helpers");
        }
        let mut d = 0;
        while d < NS {
            if d < rt.ns {
                let dst = rt.sent[d].dst;
                vassert!(dst != probed, "c12: never asks the target itself");
                vassert!(pre.is_active(dst), "c12: only active members are asked");
                let mut e = 0;
                while e < d {
                    vassert!(rt.sent[e].dst != dst, "c12: helpers are distinct");
                    e += 1;
                }
                match rt.header(d) {
                    Some(h) => vassert!(h.message == Message::PingReq { target: probed, probe_number: pre.probe.probe_number },
                        "c12: PingReq names the target and the current probe number"),
                    None => vassert!(false, "c07: PingReq has a header"),
                }
                vassert!(post.probe.indirect.iter().any(|x| *x == dst), "c12: every asked member is recorded as helper");
            }
            d += 1;
        }
    }
    vassert!(post.probe.direct == pre.probe.direct && post.probe.probe_number == pre.probe.probe_number
        && post.probe.direct_ack_ok == pre.probe.direct_ack_ok
        && post.probe.indirect_ack_count == pre.probe.indirect_ack_count,
        "c12: the indirect stage creates no evidence");
    vassert!(post.probe.reached, "c13: the indirect stage is marked as reached");
}

pub fn t_indirect_k2<S: Src>(s: &mut S) {
    t_indirect_k(s, 2)
}
pub fn t_indirect_k3<S: Src>(s: &mut S) {
    t_indirect_k(s, 3)
}

/// `RemoveDown(id)`.
pub fn t_remove<S: Src>(s: &mut S) {
    let mut f = arb_foca(s, Shape::k(3));
    let pre = snap(&f);
    let id = Id::arb(s);
    let mut rt = LogRt::new();
    let r = f.handle_timer(Timer::RemoveDown(id), &mut rt);
    let post = snap(&f);
    vassert!(r.is_ok(), "c11: RemoveDown never fails");
    let mut cx = Ctx::quiet();
    cx.removes = Some(id);
    post_common(&pre, &post, &f, &rt, cx);
    vassert!(rt.is_silent(), "c11: forgetting a member is silent");
    let hit = match pre.by_addr(id.addr) {
        Some((rid, _, st)) => rid == id && st == State::Down,
        None => false,
    };
    vcover!(hit, "record forgotten");
    vcover!(!hit && pre.by_addr(id.addr).is_some(), "forget-timer for another identity / active record");
    if hit {
        vassert!(post.n + 1 == pre.n && post.by_addr(id.addr).is_none(), "c11: the forget-timer removes exactly that Down identity");
    } else {
        vassert!(post.n == pre.n, "c11: the forget-timer removes nothing else");
    }
    // every other record is untouched
    let mut i = 0;
    while i < KMAX {
        if i < pre.n && pre.recs[i].0.addr != id.addr {
            vassert!(post.by_addr(pre.recs[i].0.addr) == Some(pre.recs[i]), "c11: other records untouched by RemoveDown");
        }
        i += 1;
    }
    if !hit {
        vassert!(post.same_members(&pre), "c11: a non-matching forget-timer changes nothing");
    }
    vassert!(post.identity == pre.identity && post.incarnation == pre.incarnation && post.token == pre.token
        && post.conn == pre.conn && post.probe == pre.probe && post.rng_pos == pre.rng_pos,
        "c11: RemoveDown touches only the membership list");
}

/// Periodic timers with the current token.
fn periodic<S: Src>(s: &mut S, which: u8) {
    periodic_b(s, which, if which == 1 { 1 } else { 0 })
}
fn periodic_b<S: Src>(s: &mut S, which: u8, backlog: usize) {
    let mut sh = Shape::k(if backlog == 0 && which == 1 { 1 } else { 3 });
    sh.backlog = backlog;
    let mut f = arb_foca(s, sh);
    let pre = snap(&f);
    let (t, enabled, after, want_members) = match which {
        0 => (
            Timer::PeriodicAnnounce(pre.token),
            f.config.periodic_announce.clone(),
            D_ANNOUNCE,
            true,
        ),
        1 => (
            Timer::PeriodicGossip(pre.token),
            f.config.periodic_gossip.clone(),
            D_GOSSIP,
            true,
        ),
        _ => (
            Timer::PeriodicAnnounceDown(pre.token),
            f.config.periodic_announce_to_down_members.clone(),
            D_ANNOUNCE_DOWN,
            false,
        ),
    };
    let mut rt = LogRt::new();
    let r = f.handle_timer(t.clone(), &mut rt);
    let post = snap(&f);
    vassert!(r.is_ok(), "c13: periodic timers never fail");
    let mut cx = Ctx::quiet();
    if is_conn(pre.conn) && enabled.is_some() {
        cx.own_timers[match which { 0 => 1, 1 => 3, _ => 2 }] = 1;
    }
    post_common(&pre, &post, &f, &rt, cx);
    vassert!(rt.nn == 0 && post.same_members(&pre) && post.token == pre.token && post.conn == pre.conn
        && post.incarnation == pre.incarnation && post.probe == pre.probe && post.enc_n == pre.enc_n,
        "c13: periodic tasks change no protocol state");
    let live = is_conn(pre.conn) && enabled.is_some();
    vcover!(live, "periodic task runs");
    vcover!(is_conn(pre.conn) && enabled.is_none(), "periodic task disabled at runtime");
    if !live {
        vassert!(rt.is_silent() && post.rng_pos == pre.rng_pos, "c13: a disabled or disconnected periodic task does nothing and is not re-armed");
        return;
    }
    let num = enabled.map(|p| p.num_members.get()).unwrap_or(0);
    vassert!(rt.nt == 1 && rt.count_timer(&t) == 1 && rt.timer_after(&t) == Some(after),
        "c13: a periodic task re-arms exactly its own timer");
    // candidates
    let mut cand = 0;
    let mut i = 0;
    while i < KMAX {
        if i < pre.n {
            let down = pre.recs[i].2 == State::Down;
            if want_members != down {
                cand += 1;
            }
        }
        i += 1;
    }
    let want = if cand < num { cand } else { num };
    vcover!(want >= 1, "periodic task has someone to talk to");
    if which == 1 {
        // gossip only when there is something to disseminate
        if pre.updates_len == 0 && pre.custom_len == 0 {
            vassert!(rt.ns == 0, "c15: periodic gossip sends nothing when both backlogs are empty");
            return;
        }
    }
    if which != 2 {
        vassert!(rt.ns == want, "c13: periodic task talks to min(num_members, available) members");
    } else {
        vassert!(rt.ns <= want, "c13: periodic announce-to-down talks to at most num_members down members");
    }
    let mut d = 0;
    while d < NS {
        if d < rt.ns {
            let dst = rt.sent[d].dst;
            let expect_tag = if which == 1 { 8 } else { 6 };
            vassert!(rt.tag(d) == expect_tag, "c13: periodic task sends its own message kind");
            if want_members {
                vassert!(pre.is_active(dst), "c13: periodic announce/gossip goes to active members");
            } else {
                vassert!(!pre.is_active(dst) && pre.by_addr(dst.addr).map(|r| r.0) == Some(dst),
                    "c13: periodic announce-to-down goes to Down members");
            }
            if which != 1 {
                vassert!(rt.sent[d].len == HDR, "c07: Announce carries nothing after the header");
            }
            let mut e = 0;
            while e < d {
                vassert!(rt.sent[e].dst != dst, "c13: periodic task picks distinct members");
                e += 1;
            }
        }
        d += 1;
    }
}

pub fn t_announce<S: Src>(s: &mut S) {
    periodic(s, 0)
}
pub fn t_gossip<S: Src>(s: &mut S) {
    periodic(s, 1)
}
/// periodic gossip with nothing to disseminate: still re-arms, sends nothing
pub fn t_gossip_idle<S: Src>(s: &mut S) {
    periodic_b(s, 1, 0)
}
pub fn t_announce_down<S: Src>(s: &mut S) {
    periodic(s, 2)
}
