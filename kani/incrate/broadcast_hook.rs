//! Child module of `foca::broadcast` (hook): raw access to the backlog and the
//! contract stubs used by the in-crate harnesses (see DESIGN.md §3.5).
use super::{Broadcasts, Entry, Invalidates};
use alloc::vec::Vec;
use bytes::BufMut;

impl<T> Broadcasts<T>
where
    T: Invalidates,
{
    /// Push an entry as-is (no invalidation): builds arbitrary backlog pre-states.
    pub(crate) fn verif_push_raw(&mut self, item: T, data: Vec<u8>, remaining_tx: usize) {
        self.flip.push(Entry {
            remaining_tx,
            item,
            data,
        });
    }

    /// (remaining_tx, data) of every entry, unordered.
    pub(crate) fn verif_snapshot(&self) -> Vec<(usize, Vec<u8>)> {
        self.flip
            .iter()
            .map(|e| (e.remaining_tx, e.data.clone()))
            .collect()
    }

    pub(crate) fn verif_items(&self) -> impl Iterator<Item = (&T, usize, &[u8])> {
        self.flip
            .iter()
            .map(|e| (&e.item, e.remaining_tx, e.data.as_slice()))
    }

    pub(crate) fn verif_flop_len(&self) -> usize {
        self.flop.len()
    }

    // --- contract stubs (Kani only; replace the real methods in E1 harnesses) ---

    /// Stub for `add_or_replace`: no effect on the heap. What was added is
    /// observed through the codec / handler logs instead.
    pub(crate) fn verif_stub_add_or_replace(&mut self, _item: T, _data: Vec<u8>, _max_tx: usize) {}

    /// Stub for `fill`: read-only pass over the real heap in iteration order;
    /// writes every entry that still fits, as a whole; leaves the backlog
    /// untouched. (Contract discharged on the real code in engine E2.)
    pub(crate) fn verif_stub_fill(&mut self, mut buffer: impl BufMut, max_items: usize) -> usize {
        let mut n = 0;
        for e in self.flip.iter() {
            if n < max_items && buffer.remaining_mut() >= e.data.len() {
                buffer.put_slice(&e.data);
                n += 1;
            }
        }
        n
    }

    pub(crate) fn verif_stub_fill_with_len_prefix(
        &mut self,
        mut buffer: impl BufMut,
        max_items: usize,
    ) -> usize {
        let mut n = 0;
        for e in self.flip.iter() {
            if n < max_items && buffer.remaining_mut() >= e.data.len() + 2 {
                buffer.put_u16(e.data.len() as u16);
                buffer.put_slice(&e.data);
                n += 1;
            }
        }
        n
    }
}
