//! Property oracles shared by all step obligations. Written from the property
//! statements (SWIM semantics), not from foca's code.
use super::kit::*;
use super::state::*;
use crate::{ConnectionState, State};

pub const SETN: usize = 6;

#[derive(Clone, Copy, Debug)]
pub struct IdSet {
    pub n: usize,
    pub items: [Id; SETN],
    pub overflow: bool,
}

impl IdSet {
    pub fn new() -> Self {
        Self {
            n: 0,
            items: [Id::new(0, 0); SETN],
            overflow: false,
        }
    }
    pub fn contains(&self, id: Id) -> bool {
        let mut i = 0;
        let mut f = false;
        while i < SETN {
            if i < self.n && self.items[i] == id {
                f = true;
            }
            i += 1;
        }
        f
    }
    pub fn insert(&mut self, id: Id) {
        if self.n < SETN {
            self.items[self.n] = id;
            self.n += 1;
        } else {
            self.overflow = true;
        }
    }
    pub fn remove(&mut self, id: Id) {
        let mut i = 0;
        let mut at = SETN;
        while i < SETN {
            if i < self.n && self.items[i] == id {
                at = i;
            }
            i += 1;
        }
        if at < SETN {
            self.items[at] = self.items[self.n - 1];
            self.n -= 1;
        }
    }
    pub fn replace(&mut self, a: Id, b: Id) {
        let mut i = 0;
        while i < SETN {
            if i < self.n && self.items[i] == a {
                self.items[i] = b;
            }
            i += 1;
        }
    }
}

pub fn active_set(s: &Snap) -> IdSet {
    let mut m = IdSet::new();
    let mut i = 0;
    while i < KMAX {
        if i < s.n && s.recs[i].2 != State::Down {
            m.insert(s.recs[i].0);
        }
        i += 1;
    }
    m
}

/// What the operation under test is allowed to do (derived from the property
/// statements for that kind of input).
#[derive(Clone, Copy)]
pub struct Ctx {
    /// the step may legitimately end in Defunct / Rejoin (it told the instance
    /// that its identity is Down / unrefutably suspected, or it is leave_cluster)
    pub may_die: bool,
    /// the step *must* end in Defunct or Rejoin
    pub must_die: bool,
    /// the step resets the connection (change_identity / reuse_down_identity)
    pub resets: bool,
    /// own incarnation may grow (a suspicion about the current identity at an
    /// incarnation >= own was processed)
    pub may_bump: bool,
    /// number of addresses named in the input that may create records
    pub new_addrs: usize,
    /// RemoveDown(id): the only way a record may disappear
    pub removes: Option<Id>,
    /// datagrams addressed to these (peer-named relay targets) may bear any address
    pub relay_dst: Option<Id>,
    /// identity may change (renewal on death, or change_identity)
    pub may_change_identity: bool,
    /// recurring timers the operation itself re-arms (it consumed one of them):
    /// [probe, announce, announce-down, gossip]
    pub own_timers: [usize; 4],
}

impl Ctx {
    pub const fn quiet() -> Self {
        Self {
            may_die: false,
            must_die: false,
            resets: false,
            may_bump: false,
            new_addrs: 0,
            removes: None,
            relay_dst: None,
            may_change_identity: false,
            own_timers: [0; 4],
        }
    }
}

/// C08 + C09 + C10 (monotonicity) + C19 + Inv preservation + header sanity of
/// every datagram, for one step `pre --op--> post` with recorded effects `rt`.
pub fn post_common(pre: &Snap, post: &Snap, f: &F, rt: &LogRt, cx: Ctx) {
    vassert!(!rt.overflow && !f.codec.log.overflow, "harness: effect logs large enough");

    // ---- Inv is inductive -------------------------------------------------
    vassert!(own_addr_never_active(f), "c09+c19: the instance's own address is never an active member (so no destination choice can pick it)");
    vassert!(inv_holds(f), "c09: representation invariant preserved (one record per address, own address never active, active count exact, Connected => has members, probe state coherent)");

    // ---- C08: notifications mirror the membership -------------------------
    let mut m = active_set(pre);
    // connection automaton: 0 = Disconnected, 1 = Connected, 2 = Undead
    let mut c = match pre.conn {
        ConnectionState::Disconnected => 0u8,
        ConnectionState::Connected => 1,
        ConnectionState::Undead => 2,
    };
    if cx.resets {
        c = 0;
    }
    let mut died = false;
    let mut i = 0;
    while i < NN {
        if i < rt.nn {
            match rt.notes[i] {
                Note::Up(id) => {
                    vassert!(!m.contains(id), "c08: MemberUp never notified for a member already up");
                    m.insert(id);
                }
                Note::Down(id) => {
                    vassert!(m.contains(id), "c08: MemberDown never notified for a member that is not up");
                    m.remove(id);
                }
                Note::Rename(a, b) => {
                    vassert!(a.addr == b.addr && b.gen > a.gen, "c09: Rename only to a same-address identity that wins the conflict");
                    m.replace(a, b);
                }
                Note::Active => {
                    vassert!(c == 0, "c08: Active only from the idle state");
                    vassert!(m.n > 0, "c08: Active only with at least one active member");
                    c = 1;
                }
                Note::Idle => {
                    vassert!(c == 1, "c08: Idle only while active");
                    vassert!(m.n == 0, "c08: Idle only when the last active member disappeared");
                    c = 0;
                }
                Note::Defunct => {
                    vassert!(cx.may_die, "c08: Defunct only on learning/declaring own identity Down");
                    died = true;
                    c = 2;
                }
                Note::Rejoin(id) => {
                    vassert!(cx.may_die, "c08: Rejoin only on learning own identity Down");
                    vassert!(id == post.identity && id != pre.identity, "c08: Rejoin iff switched to the renewed identity");
                    died = true;
                    c = 0;
                }
                Note::Other => {}
            }
        }
        i += 1;
    }
    vassert!(!m.overflow, "harness: id set large enough");
    let post_active = active_set(post);
    vassert!(m.n == post_active.n && post.num_active == m.n, "c08: replayed notifications give num_members()");
    let mut j = 0;
    while j < SETN {
        if j < m.n {
            vassert!(post_active.contains(m.items[j]), "c08: replayed notifications give exactly iter_members()");
        }
        j += 1;
    }
    let cpost = match post.conn {
        ConnectionState::Disconnected => 0u8,
        ConnectionState::Connected => 1,
        ConnectionState::Undead => 2,
    };
    vassert!(c == cpost, "c08: Active/Idle/Defunct/Rejoin notifications track the connection state");
    if cx.must_die {
        vassert!(died, "c08+c10: on learning that its identity is Down (or unrefutably suspected) the instance renews or becomes Defunct");
    }

    // ---- C13: recurring timers and epochs -------------------------------------
    let n_active = rt.count_note(Note::Active);
    let bumps = rt.count_note(Note::Idle) + rt.count_note(Note::Defunct) + rt.count_note(Note::Rejoin(post.identity))
        + (cx.resets as usize);
    vassert!(post.token == pre.token.wrapping_add(bumps as u8),
        "c11+c13: the timer epoch advances exactly on Idle, Defunct and identity change/reuse (timers of earlier epochs stay dead)");
    let mut cnt = [0usize; 4];
    let mut t = 0;
    while t < NT {
        if t < rt.nt {
            if let Some((ev, _)) = &rt.timers[t] {
                let tok = match ev {
                    crate::Timer::ProbeRandomMember(k) => {
                        cnt[0] += 1;
                        Some(*k)
                    }
                    crate::Timer::PeriodicAnnounce(k) => {
                        cnt[1] += 1;
                        Some(*k)
                    }
                    crate::Timer::PeriodicAnnounceDown(k) => {
                        cnt[2] += 1;
                        Some(*k)
                    }
                    crate::Timer::PeriodicGossip(k) => {
                        cnt[3] += 1;
                        Some(*k)
                    }
                    crate::Timer::SendIndirectProbe { token, .. } => Some(*token),
                    crate::Timer::ChangeSuspectToDown { token, .. } => Some(*token),
                    crate::Timer::RemoveDown(_) => None,
                };
                if let Some(k) = tok {
                    if bumps == 0 {
                        vassert!(k == pre.token, "c13: timers are issued under the current epoch");
                    }
                    if c == 1 {
                        vassert!(k == post.token, "c13: an instance that ends the step active issued its timers under the final epoch");
                    }
                }
            }
        }
        t += 1;
    }
    vassert!(cnt[0] == cx.own_timers[0] + n_active, "c13: exactly one probe timer per Active notification (plus the one being re-armed)");
    vassert!(cnt[1] == cx.own_timers[1] + if pre.cfg_periodic.0 { n_active } else { 0 }, "c13: exactly one announce timer per Active when enabled");
    vassert!(cnt[2] == cx.own_timers[2] + if pre.cfg_periodic.1 { n_active } else { 0 }, "c13: exactly one announce-down timer per Active when enabled");
    vassert!(cnt[3] == cx.own_timers[3] + if pre.cfg_periodic.2 { n_active } else { 0 }, "c13: exactly one gossip timer per Active when enabled");

    // ---- C09: identities only move forward --------------------------------
    let mut k = 0;
    while k < KMAX {
        if k < pre.n {
            let (pid, _pinc, pst) = pre.recs[k];
            match post.by_addr(pid.addr) {
                Some((qid, _qinc, qst)) => {
                    vassert!(qid == pid || qid.gen > pid.gen, "c09: a record's identity is only replaced by one that wins the address conflict");
                    if qid != pid {
                        vassert!(rt.has_note(Note::Rename(pid, qid)), "c09: identity replacement is reported as Rename");
                    }
                    if qid == pid && pst == State::Down {
                        vassert!(qst == State::Down, "c11: a Down identity never becomes active again");
                    }
                }
                None => {
                    vassert!(cx.removes == Some(pid) && pst == State::Down, "c11: a record is removed only by the forget-timer for exactly that Down identity");
                }
            }
        }
        k += 1;
    }
    vassert!(post.n <= pre.n + cx.new_addrs, "c09: membership never grows beyond the addresses it was told about");

    // ---- C10: incarnation discipline ---------------------------------------
    if post.identity == pre.identity && !cx.resets {
        vassert!(post.incarnation >= pre.incarnation, "c10: own incarnation never decreases while the identity is in use");
        if !cx.may_bump {
            vassert!(post.incarnation == pre.incarnation, "c10: own incarnation grows only in reaction to a suspicion about the current identity");
        }
    } else {
        vassert!(cx.may_change_identity || cx.resets, "c10: identity changes only by renewal on death or change_identity");
        vassert!(post.incarnation == 0, "c10: incarnation starts at 0 for each identity");
    }
    if post.identity != pre.identity && !cx.resets {
        vassert!(post.identity.addr == pre.identity.addr && post.identity.gen > pre.identity.gen, "c10: a renewed identity differs from and wins against the old one");
    }

    // ---- every datagram: header sanity, C19 --------------------------------
    let mut d = 0;
    while d < NS {
        if d < rt.ns {
            let sent = &rt.sent[d];
            vassert!(sent.len <= pre.cfg_pkt.max(post.cfg_pkt), "c07: datagram within max_packet_size");
            match rt.header(d) {
                Some(h) => {
                    vassert!(h.dst == sent.dst, "c07: header destination is the identity it is handed over for");
                    vassert!(h.src == pre.identity || h.src == post.identity, "c07: header source is the sender's identity");
                    if h.src == post.identity && post.identity == pre.identity {
                        vassert!(h.src_incarnation >= pre.incarnation && h.src_incarnation <= post.incarnation,
                            "c07: header carries the sender's incarnation");
                    }
                }
                None => vassert!(false, "c07: datagram starts with a decodable header"),
            }
            if cx.relay_dst != Some(sent.dst) {
                vassert!(sent.dst.addr != pre.identity.addr, "c19: never its own address as a destination");
            }
        }
        d += 1;
    }
}
