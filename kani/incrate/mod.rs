//! In-crate verification harnesses for foca (compiled only under `cfg(kani)` or
//! `--cfg caio_foca_verif`; see /verif/DESIGN.md). Source lives in /verif.
extern crate alloc;

#[macro_use]
pub mod kit;
pub mod state;

pub mod oracle;

pub mod h_c11;
pub mod h_probe;
pub mod ops_timer;

/// Declares the harness table. Under Kani every entry becomes a proof harness
/// (the `stubbed` ones with the `Broadcasts` contract stubs of DESIGN §3.5);
/// natively the same bodies are reachable through `run(name, tape)`.
macro_rules! harnesses {
    (plain: [$( ($pm:ident :: $pn:ident, $pu:literal) ),* $(,)?],
     stubbed: [$( ($sm:ident :: $sn:ident, $su:literal) ),* $(,)?]) => {
        #[cfg(kani)]
        mod proofs {
            use super::kit::KaniSrc;
            use crate::broadcast::Broadcasts;
            $(
                #[kani::proof]
                #[kani::unwind($pu)]
                fn $pn() {
                    let mut s = KaniSrc;
                    super::$pm::$pn(&mut s);
                }
            )*
            $(
                #[kani::proof]
                #[kani::unwind($su)]
                #[kani::stub(Broadcasts::add_or_replace, Broadcasts::verif_stub_add_or_replace)]
                #[kani::stub(Broadcasts::fill, Broadcasts::verif_stub_fill)]
                #[kani::stub(Broadcasts::fill_with_len_prefix, Broadcasts::verif_stub_fill_with_len_prefix)]
                fn $sn() {
                    let mut s = KaniSrc;
                    super::$sm::$sn(&mut s);
                }
            )*
        }

        /// Native replay entry: runs harness `name` on `tape`. Returns
        /// `None` for an unknown harness, `Some(in_domain)` otherwise; a violated
        /// obligation panics (caught by the caller).
        #[cfg(not(kani))]
        pub fn run(name: &str, tape: &[u8]) -> Option<bool> {
            let mut s = kit::TapeSrc::new(tape);
            match name {
                $( stringify!($pn) => { $pm::$pn(&mut s); } )*
                $( stringify!($sn) => { $sm::$sn(&mut s); } )*
                _ => return None,
            }
            Some(kit::Src::ok(&s))
        }

        pub const HARNESSES: &[&str] = &[
            $( stringify!($pn), )*
            $( stringify!($sn), )*
        ];
    };
}

harnesses! {
    plain: [ (h_probe::zz_smoke, 2) ],
    stubbed: [
        (h_c11::c11_timeout_iff, 7),
        (ops_timer::c13_stale_probe, 7),
        (ops_timer::c13_stale_indirect, 7),
        (ops_timer::c13_stale_suspect, 7),
        (ops_timer::c13_stale_announce, 7),
        (ops_timer::c13_stale_gossip, 7),
        (ops_timer::c13_stale_announce_down, 7),
        (ops_timer::t_probe_k2, 7),
        (ops_timer::t_probe_k3, 7),
        (ops_timer::t_indirect_k2, 7),
        (ops_timer::t_indirect_k3, 7),
        (ops_timer::t_remove, 7),
        (ops_timer::t_announce, 7),
        (ops_timer::t_gossip, 7),
        (ops_timer::t_announce_down, 7),
    ]
}
