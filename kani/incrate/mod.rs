//! In-crate verification harnesses for foca (compiled only under `cfg(kani)` or
//! `--cfg caio_foca_verif`; see /verif/DESIGN.md). Source lives in /verif.
extern crate alloc;

#[macro_use]
pub mod kit;
pub mod state;

pub mod oracle;

pub mod h_c11;
pub mod h_members;
pub mod h_misc;
pub mod h_probe;
pub mod h_send;
pub mod ops_api;
pub mod ops_data;
pub mod ops_timer;

/// Declares the harness table. Under Kani every entry becomes a proof harness
/// (the `stubbed` ones with the `Broadcasts` contract stubs of DESIGN §3.5);
/// natively the same bodies are reachable through `run(name, tape)`.
macro_rules! harnesses {
    (plain: [$( ($pm:ident :: $pn:ident, $pu:literal) ),* $(,)?],
     stubbed: [$( ($sm:ident :: $sn:ident, $su:literal) ),* $(,)?],
     native: [$( $nm:ident :: $nn:ident ),* $(,)?]) => {
        #[cfg(kani)]
        mod proofs {
            use super::kit::KaniSrc;
            use crate::broadcast::Broadcasts;
            $(
                #[kani::proof]
                #[kani::unwind($pu)]
                fn $pn() {
                    let mut s = KaniSrc;
                    super::$pm::$pn(&mut s);
                }
            )*
            $(
                #[kani::proof]
                #[kani::unwind($su)]
                #[kani::stub(Broadcasts::add_or_replace, Broadcasts::verif_stub_add_or_replace)]
                #[kani::stub(Broadcasts::fill, Broadcasts::verif_stub_fill)]
                #[kani::stub(Broadcasts::fill_with_len_prefix, Broadcasts::verif_stub_fill_with_len_prefix)]
                fn $sn() {
                    let mut s = KaniSrc;
                    super::$sm::$sn(&mut s);
                }
            )*
        }

        /// Native replay entry: runs harness `name` on `tape`. Returns
        /// `None` for an unknown harness, `Some(in_domain)` otherwise; a violated
        /// obligation panics (caught by the caller).
        #[cfg(not(kani))]
        pub fn run(name: &str, tape: &[u8]) -> Option<bool> {
            run_opts(name, tape, false)
        }

        /// `lenient`: see `kit::TapeSrc::lenient`.
        #[cfg(not(kani))]
        pub fn run_opts(name: &str, tape: &[u8], lenient: bool) -> Option<bool> {
            let mut s = kit::TapeSrc::new(tape);
            s.lenient = lenient;
            match name {
                $( stringify!($pn) => { $pm::$pn(&mut s); } )*
                $( stringify!($sn) => { $sm::$sn(&mut s); } )*
                $( stringify!($nn) => { $nm::$nn(&mut s); } )*
                _ => return None,
            }
            Some(kit::Src::ok(&s))
        }

        pub const HARNESSES: &[&str] = &[
            $( stringify!($pn), )*
            $( stringify!($sn), )*
        ];
    };
}

harnesses! {
    plain: [
        (h_probe::zz_smoke, 2),
        (h_members::c01_commute, 7),
        (h_members::c01_commute_new, 7),
        (h_members::c01_idempotent, 7),
        (h_members::c01_monotone, 7),
        (h_members::c01_frame, 7),
        (h_members::c01_exchange, 7),
        (h_members::c14_next_k3, 8),
        (h_members::c14_next_k4, 8),
        (h_members::c14_next_k5, 8),
        (h_misc::c08_accumulating_runtime, 7),
        (h_misc::c08_accumulating_send, 7),
        (h_misc::c08_accumulating_runtime_b, 7),
        (h_misc::c15_key_same_addr, 7),
        (h_misc::c15_key_diff_addr, 7),
        (h_misc::c15_key_returning, 7),
        (h_misc::c16_broadcast_drain, 7),
        (h_misc::c15_gossip_real, 7),
    ],
    stubbed: [
        (h_c11::c11_timeout_iff, 7),
        (h_c11::c11_timeout_iff_k3, 7),
        (h_misc::c17_announce_payload, 7),
        (h_misc::a_own_state_noop, 7),
        (ops_timer::c13_stale_probe, 7),
        (ops_timer::c13_stale_indirect, 7),
        (ops_timer::c13_stale_suspect, 7),
        (ops_timer::c13_stale_announce, 7),
        (ops_timer::c13_stale_gossip, 7),
        (ops_timer::c13_stale_announce_down, 7),
        (ops_timer::t_probe_k2, 7),
        (ops_timer::t_probe_k3, 7),
        (ops_timer::t_indirect_k2, 7),
        (ops_timer::t_indirect_k3, 7),
        (ops_timer::t_remove, 7),
        (ops_timer::t_announce, 7),
        (ops_timer::t_gossip, 7),
        (ops_timer::t_gossip_idle, 7),
        (ops_timer::t_announce_down, 7),
        (ops_api::a_apply1_k1, 7),
        (ops_api::a_apply1_k2, 7),
        (ops_api::a_apply1_k3, 7),
        (ops_api::a_announce, 7),
        (ops_api::a_gossip, 7),
        (ops_api::a_leave, 7),
        (ops_api::a_change_identity, 7),
        (ops_api::a_reuse, 7),
        (h_send::c07_send_pb_9, 7),
        (h_send::c07_send_pb_10, 7),
        (h_send::c07_send_pb_12, 7),
        (h_send::c07_send_pb_13, 7),
        (h_send::c07_send_pb_16, 7),
        (h_send::c07_send_pb_17, 7),
        (h_send::c07_send_pb_21, 7),
        (h_send::c07_send_pb_22, 7),
        (h_send::c07_send_pb_27, 7),
        (h_send::c07_send_pb_32, 7),
        (h_send::c07_send_feed_12, 7),
        (h_send::c07_send_feed_17, 7),
        (h_send::c07_send_feed_22, 7),
        (h_send::c07_send_feed_32, 7),
        (h_send::c07_send_feed_failing, 7),
        (h_send::c07_send_feed_fail_first, 7),
        (h_send::c07_send_feed_fail_second, 7),
        (h_send::c07_send_bare_10, 7),
        (h_send::c07_send_bare_32, 7),
        (h_send::c07_send_bcast_14, 7),
        (h_send::c07_send_bcast_15, 7),
        (h_send::c07_send_bcast_32, 7),
        (h_misc::c17_oversize, 7),
        (h_misc::c17_bad_header_0, 7),
        (h_misc::c17_bad_header_5, 7),
        (h_misc::c17_bad_header_9, 7),
        (h_misc::c17_bad_header_tag11, 7),
        (h_misc::c17_bad_header_tag255, 7),
        (h_misc::c17_bad_member_trunc, 7),
        (h_misc::c17_bad_member_state, 7),
        (h_misc::c17_bad_member_state255, 7),
        (h_misc::c17_bad_member_count, 7),
        (h_misc::c17_trailing_byte, 7),
        (h_misc::c17_trailing_byte_ping, 7),
        (h_misc::c17_trailing_byte_turn_undead, 7),
        (h_misc::c06_fuzz_gossip_7, 7),
        (h_misc::c06_fuzz_gossip_9, 7),
        (h_misc::c06_fuzz_ping_7, 7),
        (h_misc::c06_fuzz_broadcast_5, 7),
        (h_misc::c06_fuzz_feed_2, 7),
        (h_misc::c06_fuzz_turnundead_3, 7),
        (h_misc::c06_set_config_same, 7),
        (h_misc::c06_set_config_gossip, 7),
        (h_misc::c06_set_config_grow, 7),
        (h_misc::c06_set_config_shrink, 7),
        (h_misc::c16_add_broadcast, 7),
        (h_misc::c16_broadcast_empty, 7),
        (h_misc::c16_broadcast_one, 7),
        (ops_data::d_ping, 7),
        (ops_data::d_ack, 7),
        (ops_data::d_pingreq, 7),
        (ops_data::d_indirect_ping, 7),
        (ops_data::d_indirect_ack, 7),
        (ops_data::d_fwd_ack, 7),
        (ops_data::d_announce, 7),
        (ops_data::d_announce_k2, 7),
        (ops_data::d_feed, 7),
        (ops_data::d_gossip, 7),
        (ops_data::d_broadcast, 7),
        (ops_data::d_turn_undead, 7),
        (ops_data::d_turn_undead_never, 7),
        (ops_data::d_turn_undead_losing, 7),
        (ops_data::d_turn_undead_next, 7),
        (ops_data::d_announce_32, 7),
        (ops_data::d_turn_undead_k2, 7),
        (ops_data::d_ping_upd, 7),
        (ops_data::d_ping_upd_k2, 7),
        (ops_data::d_gossip_upd, 7),
        (ops_data::d_gossip_upd_k2, 7),
        (ops_data::d_feed_upd, 7),
        (ops_data::d_gossip_upd_never, 7),
        (ops_data::d_ping_upd_never, 7),
        (ops_data::d_feed_upd_tight, 7),
        (ops_data::d_ack_upd, 7),
        (ops_data::d_gossip_custom, 7),
        (ops_data::d_broadcast_custom, 7),
        (ops_data::d_ack_custom2, 7),
        (ops_data::d_fwd_ack_2, 7),
        (h_misc::c06_timer_crafted_suspect, 7),
    ],
    native: [
        h_members::e4_can_change,
    ]
}
