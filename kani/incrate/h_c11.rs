//! C11 — suspicion timeout takes effect iff unrefuted; Down is final until forgotten.
use super::kit::*;
use super::oracle::*;
use super::state::*;
use crate::{ConnectionState, State, Timer};

/// `ChangeSuspectToDown(member_id, incarnation, token)` on an arbitrary
/// Inv-state: takes effect iff token current and the record shows the same
/// identity at the same incarnation and is active; otherwise nothing at all
/// happens.
pub fn c11_timeout_iff<S: Src>(s: &mut S) {
    c11_timeout_iff_k(s, 2)
}
pub fn c11_timeout_iff_k3<S: Src>(s: &mut S) {
    c11_timeout_iff_k(s, 3)
}
fn c11_timeout_iff_k<S: Src>(s: &mut S, k: usize) {
    let mut f = arb_foca(s, Shape::k(k));
    let member_id = Id::arb(s);
    let inc = s.u16();
    let token = s.u8();
    let pre = snap(&f);
    let rec = pre.by_addr(member_id.addr);
    // Hypothesis: timers an instance schedules for itself never name an identity
    // newer than the one it holds for that address (identities move forward).
    if let Some((rid, _, _)) = rec {
        s.assume(!(member_id.gen > rid.gen));
    }
    // Hypothesis (timer epochs, C13): suspicion timers are only created while
    // Connected and every exit from Connected bumps the token, so a timer that
    // carries the current token finds the instance Connected.
    if token == pre.token {
        s.assume(pre.conn == ConnectionState::Connected);
    }
    let mut rt = LogRt::new();
    let r = f.handle_timer(
        Timer::ChangeSuspectToDown {
            member_id,
            incarnation: inc,
            token,
        },
        &mut rt,
    );
    let post = snap(&f);
    vassert!(r.is_ok(), "c11: handle_timer(ChangeSuspectToDown) returns Ok");
    post_common(&pre, &post, &f, &rt, Ctx::quiet());

    let same = match rec {
        Some((rid, rinc, _)) => rid == member_id && rinc == inc,
        None => false,
    };
    let rec_active = match rec {
        Some((_, _, st)) => st != State::Down,
        None => false,
    };
    let effective = token == pre.token && same && rec_active;
    let already_down = token == pre.token && same && !rec_active;

    vcover!(effective, "c11: timeout takes effect");
    vcover!(!effective && !already_down, "c11: timeout cancelled or stale");
    vcover!(
        token == pre.token && rec_active && !same,
        "c11: current epoch, active record, refuted or superseded"
    );

    if effective {
        let was_last = pre.num_active == 1 && pre.conn == ConnectionState::Connected;
        match post.by_addr(member_id.addr) {
            Some((pid, pinc, pst)) => {
                vassert!(pid == member_id && pinc == inc && pst == State::Down,
                    "c11: record is Down at the same identity and incarnation");
            }
            None => vassert!(false, "c11: record still present"),
        }
        vassert!(post.n == pre.n && post.num_active + 1 == pre.num_active,
            "c11: exactly one member left the active set");
        vassert!(rt.count_note(Note::Down(member_id)) == 1, "c11: MemberDown notified once");
        vassert!(rt.nn == 1 + was_last as usize, "c11: no other notification");
        vassert!(rt.has_note(Note::Idle) == was_last, "c11: Idle iff it was the last active member");
        vassert!(post.enc_n == pre.enc_n + 1
            && f.codec.log.contains(member_id, inc, State::Down),
            "c11: the Down update is queued for gossip");
        vassert!(rt.count_timer(&Timer::RemoveDown(member_id)) == 1
            && rt.timer_after(&Timer::RemoveDown(member_id)) == Some(D_REMOVE)
            && rt.nt == 1,
            "c11: exactly one forget-timer after remove_down_after");
        if pre.cfg_notify {
            vassert!(rt.ns == 1 && rt.sent[0].dst == member_id && rt.sent[0].len == HDR
                && rt.tag(0) == 10,
                "c11: exactly one TurnUndead to the member");
        } else {
            vassert!(rt.ns == 0, "c11: no datagram without notify_down_members");
        }
        vassert!(post.identity == pre.identity && post.incarnation == pre.incarnation,
            "c11: own identity/incarnation untouched");
    } else if already_down {
        // Neither cancelled nor stale: only membership and notifications are pinned.
        vassert!(post.same_members(&pre) && rt.nn == 0 && rt.nt == 0,
            "c11: already-Down record: membership and notifications unchanged");
    } else {
        vassert!(rt.ns == 0, "c11: cancelled/stale timeout sends no datagram");
        vassert!(rt.nn == 0, "c11: cancelled/stale timeout notifies nothing");
        vassert!(rt.nt == 0, "c11: cancelled/stale timeout schedules nothing");
        vassert!(post.identical(&pre), "c11: cancelled/stale timeout changes no state");
    }
}
