//! Child module of `foca::probe` (hook): raw construction / inspection of `Probe`.
use super::Probe;
use crate::{member::Member, ProbeNumber};
use alloc::vec::Vec;

#[derive(Clone, Debug, PartialEq, Eq)]
pub(crate) struct ProbeView<T> {
    pub direct: Option<Member<T>>,
    pub indirect: Vec<T>,
    pub probe_number: ProbeNumber,
    pub direct_ack_ok: bool,
    pub indirect_ack_count: usize,
    pub reached: bool,
}

impl<T: Clone> Probe<T> {
    pub(crate) fn verif_raw(v: ProbeView<T>) -> Self {
        Self {
            direct: v.direct,
            indirect: v.indirect,
            probe_number: v.probe_number,
            direct_ack_ok: v.direct_ack_ok,
            indirect_ack_count: v.indirect_ack_count,
            reached_indirect_probe_stage: v.reached,
        }
    }
    pub(crate) fn verif_view(&self) -> ProbeView<T> {
        ProbeView {
            direct: self.direct.clone(),
            indirect: self.indirect.clone(),
            probe_number: self.probe_number,
            direct_ack_ok: self.direct_ack_ok,
            indirect_ack_count: self.indirect_ack_count,
            reached: self.reached_indirect_probe_stage,
        }
    }
}
