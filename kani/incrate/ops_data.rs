//! Step obligations for `handle_data`: one structurally valid datagram of a
//! fixed kind and shape, every field symbolic, on an arbitrary Inv-state.
use super::kit::*;
use super::ops_api::{check_death, check_gossip_sends, spec_apply};
use super::oracle::*;
use super::state::*;
use crate::{ConnectionState, Error, Incarnation, Message, State, Timer};

type Rec = (Id, Incarnation, State);

/// Shape of the datagram after the header.
#[derive(Clone, Copy, PartialEq, Eq)]
pub enum Tail {
    /// nothing
    None,
    /// member section with count 0
    Zero,
    /// member section with one update
    One,
    /// member section with count 0 + one custom broadcast item of 3 bytes
    Custom,
    /// one custom item without member section (Broadcast datagrams)
    CustomOnly,
    /// member section with count 0 + two custom items of 3 bytes
    Custom2,
}

pub struct Dgram {
    pub src: Id,
    pub src_inc: Incarnation,
    pub dst: Id,
    pub tag: u8,
    pub arg: Id,
    pub n: u8,
    pub update: Option<Rec>,
    pub item: Option<[u8; 3]>,
    pub item2: Option<[u8; 3]>,
    /// wire bytes: a fixed array + concrete length (a `Vec` hides the length from
    /// CBMC's constant propagation and every length check becomes symbolic)
    pub bytes: [u8; 24],
    pub len: usize,
}

pub fn arb_dgram(s: &mut impl Src, tag: u8, tail: Tail) -> Dgram {
    let src = Id::arb(s);
    let src_inc = s.u16();
    let dst = Id::arb(s);
    let arg = Id::arb(s);
    let n = s.u8();
    let mut bytes = [0u8; 24];
    let hdr = [
        src.addr,
        src.gen,
        (src_inc >> 8) as u8,
        src_inc as u8,
        dst.addr,
        dst.gen,
        tag,
        arg.addr,
        arg.gen,
        n,
    ];
    bytes[..HDR].copy_from_slice(&hdr);
    let mut len = HDR;
    let mut update = None;
    let mut item = None;
    let mut item2 = None;
    match tail {
        Tail::Custom2 => {
            let a = [s.u8(), s.u8(), s.u8()];
            let b = [s.u8(), s.u8(), s.u8()];
            bytes[HDR..HDR + 12].copy_from_slice(&[0, 0, 0, 3, a[0], a[1], a[2], 0, 3, b[0], b[1], b[2]]);
            len = HDR + 12;
            item = Some(a);
            item2 = Some(b);
        }
        Tail::None => {}
        Tail::Zero => {
            len = HDR + 2;
        }
        Tail::One => {
            let m = arb_member(s);
            let r: Rec = (*m.id(), m.incarnation(), m.state());
            bytes[HDR..HDR + 7].copy_from_slice(&[0, 1, r.0.addr, r.0.gen, (r.1 >> 8) as u8, r.1 as u8, state_tag(r.2)]);
            len = HDR + 7;
            update = Some(r);
        }
        Tail::Custom => {
            let it = [s.u8(), s.u8(), s.u8()];
            bytes[HDR..HDR + 7].copy_from_slice(&[0, 0, 0, 3, it[0], it[1], it[2]]);
            len = HDR + 7;
            item = Some(it);
        }
        Tail::CustomOnly => {
            let it = [s.u8(), s.u8(), s.u8()];
            bytes[HDR..HDR + 5].copy_from_slice(&[0, 3, it[0], it[1], it[2]]);
            len = HDR + 5;
            item = Some(it);
        }
    }
    Dgram {
        src,
        src_inc,
        dst,
        tag,
        arg,
        n,
        update,
        item,
        item2,
        bytes,
        len,
    }
}

fn top(a: Incarnation, b: Incarnation) -> Incarnation {
    if a > b {
        a
    } else {
        b
    }
}

/// The generic step obligation.
fn d_step<S: Src>(s: &mut S, tag: u8, tail: Tail, sh: Shape) {
    let mut f = arb_foca(s, sh);
    let pre = snap(&f);
    let d = arb_dgram(s, tag, tail);
    let me = pre.identity;
    let msg = match parts_msg(d.tag, d.arg, d.n) {
        Some(m) => m,
        None => return,
    };
    if d.tag == 10 && d.update.is_some() {
        // TurnUndead never piggybacks (C07); the combination is covered by
        // d_turn_undead (no section) and the *_upd harnesses separately.
        return;
    }
    let mut rt = LogRt::new();
    let r = f.handle_data(&d.bytes[..d.len], &mut rt);
    let post = snap(&f);

    // ---- rejected before processing / not addressed to us (C17, C09) ---------
    let from_self = d.src == me || d.src.addr == me.addr;
    let announce_payload = d.tag == 6 && tail != Tail::None;
    let for_me = d.dst == me || (d.tag == 6 && d.dst.addr == me.addr);
    vcover!(from_self, "datagram claiming our own address");
    vcover!(!from_self && !for_me, "datagram for somebody else");
    vcover!(!from_self && for_me, "datagram accepted");
    if from_self {
        vassert!(matches!(r, Err(Error::DataFromOurselves)), "c09+c17+c19: data claiming our own identity or address is rejected (an identity of our own address never becomes a member)");
        vassert!(rt.is_silent() && post.identical(&pre), "c17: rejected datagram leaves no trace");
        return;
    }
    if announce_payload {
        vassert!(matches!(r, Err(Error::MalformedPacket)), "c07: Announce with a payload is malformed");
        vassert!(rt.is_silent() && post.identical(&pre), "c17: rejected datagram leaves no trace");
        return;
    }
    if !for_me {
        vassert!(r.is_ok(), "c17: a datagram for somebody else is ignored without error");
        vassert!(rt.is_silent() && post.identical(&pre), "c17: a datagram not addressed to the instance leaves no trace");
        return;
    }

    // ---- accepted: the sender is at least alive (header-liveness) --------------
    let s_before = pre.by_addr(d.src.addr);
    let s_after = spec_apply(s_before, (d.src, d.src_inc, State::Alive));
    let sender_active = s_after.0 == d.src && s_after.2 != State::Down;
    let s_changed = s_before != Some(s_after);
    vcover!(sender_active && s_before.is_none(), "unknown sender becomes a member");
    let k0 = sh.k == 0; // no record: the sender can only be unknown
    vcover!(k0 || (!sender_active && s_after.0 == d.src), "sender held Down");
    vcover!(k0 || (!sender_active && s_after.0 != d.src), "sender identity superseded");
    vcover!(k0 || (sender_active && s_before.map(|r| r.2 == State::Suspect && r.1 < d.src_inc).unwrap_or(false)), "header refutes a suspicion");

    // what the update (if any, and if trusted) does
    let upd = if sender_active { d.update } else { None };
    let about_self = upd.map(|u| u.0 == me).unwrap_or(false);
    let self_state = upd.map(|u| u.2);
    let u_inc = upd.map(|u| u.1).unwrap_or(0);
    let dies_by_update = about_self
        && (self_state == Some(State::Down) || (self_state == Some(State::Suspect) && top(u_inc, pre.incarnation) == u16::MAX));
    let refutes = about_self && self_state == Some(State::Suspect) && !dies_by_update && u_inc >= pre.incarnation;
    let gossips = about_self && self_state == Some(State::Suspect) && !dies_by_update;
    // TurnUndead is honoured from any sender
    let dies_by_msg = d.tag == 10;

    let relay = match msg {
        Message::PingReq { target, .. } => Some(target),
        Message::IndirectAck { target, .. } => Some(target),
        _ => None,
    };
    let mut cx = Ctx::quiet();
    cx.new_addrs = 1 + upd.is_some() as usize;
    cx.may_die = dies_by_update || dies_by_msg;
    cx.may_change_identity = cx.may_die;
    cx.must_die = (dies_by_update || dies_by_msg) && pre.conn != ConnectionState::Undead;
    cx.may_bump = refutes;
    cx.relay_dst = relay;
    post_common(&pre, &post, &f, &rt, cx);

    vassert!(rt.ns <= 1 + 2 * pre.cfg_fanout, "c18: one delivered datagram causes a bounded number of new datagrams");
    vassert!(!matches!(r, Err(Error::Decode(_)) | Err(Error::MalformedPacket) | Err(Error::DataTooBig)),
        "c07: a well-formed datagram addressed to the instance is accepted without a decode or malformed-packet error");

    // ---- records -----------------------------------------------------------------
    // sender's address
    let mut want_src = s_after;
    if let Some(u) = upd {
        if u.0.addr == d.src.addr && u.0 != me {
            let eff = if u.0.addr == me.addr { (u.0, 0, State::Down) } else { u };
            want_src = spec_apply(Some(want_src), eff);
        }
    }
    vassert!(post.by_addr(d.src.addr) == Some(want_src), "c01: any accepted datagram proves its sender alive at the header incarnation (join with the old record)");
    // the update's address (when different from the sender's)
    let mut u_changed = false;
    if let Some(u) = upd {
        if u.0 != me {
            let eff: Rec = if u.0.addr == me.addr { (u.0, 0, State::Down) } else { u };
            if u.0.addr != d.src.addr {
                let before = pre.by_addr(u.0.addr);
                let want = spec_apply(before, eff);
                vassert!(post.by_addr(u.0.addr) == Some(want), "c01: a piggybacked update moves the record forward in precedence order");
                u_changed = before != Some(want);
            } else {
                u_changed = want_src != s_after;
            }
            if u_changed {
                vassert!(f.codec.log.contains(eff.0, eff.1, eff.2), "c15: an accepted update is queued for gossip as received");
            }
        }
    }
    // frame
    let mut i = 0;
    while i < KMAX {
        if i < pre.n {
            let a = pre.recs[i].0.addr;
            let touched = a == d.src.addr || upd.map(|u| u.0.addr == a && u.0 != me).unwrap_or(false);
            if !touched {
                vassert!(post.by_addr(a) == Some(pre.recs[i]), "c09: records not named by the datagram are untouched");
            }
        }
        i += 1;
    }
    if s_changed {
        vassert!(f.codec.log.contains(s_after.0, s_after.1, s_after.2), "c15: news about the sender is queued for gossip");
    }
    if !cx.may_die {
        vassert!(post.enc_n == pre.enc_n + s_changed as usize + u_changed as usize, "c10: only what was learned is queued for gossip (no fabrication)");
    }

    // ---- inactive sender: payload discarded, at most a TurnUndead back ------------
    if !sender_active {
        vassert!(post.handler_n == pre.handler_n, "c09: custom items from a Down or superseded sender are discarded");
        if let Some(u) = d.update {
            if u.0.addr != d.src.addr {
                vassert!(post.by_addr(u.0.addr) == pre.by_addr(u.0.addr), "c09: updates from a Down or superseded sender are discarded");
            }
        }
        if dies_by_msg {
            vassert!(r.is_ok(), "c18: TurnUndead from a down member is handled");
            check_death(&pre, &post, &f, &rt);
        } else {
            vassert!(r.is_ok(), "c09: data from a down member is ignored without error");
            vassert!(post.identity == me && post.conn == pre.conn, "c09: data from a down member does not change the connection state");
        }
        // reply: only TurnUndead, only when configured, at most one, to the sender
        let mut n_tu = 0;
        let mut dd = 0;
        while dd < NS {
            if dd < rt.ns {
                if rt.tag(dd) == 10 {
                    n_tu += 1;
                    vassert!(rt.sent[dd].dst == d.src && rt.sent[dd].len == HDR, "c18: TurnUndead goes to the down sender, header only");
                } else {
                    vassert!(rt.tag(dd) == 8 && dies_by_msg && post.identity != me, "c18: a down sender gets no reply other than TurnUndead");
                }
            }
            dd += 1;
        }
        vassert!(n_tu <= pre.cfg_notify as usize, "c18: at most one TurnUndead to a down sender, only with notify_down_members");
        if !dies_by_msg {
            vassert!(n_tu == pre.cfg_notify as usize, "c11: a down member that keeps talking is told so when notify_down_members is on");
        }
        if dies_by_msg && n_tu > 0 {
            // D2: two members holding each other Down must not bounce TurnUndead
            vassert!(post.identity != me, "c18: a TurnUndead is answered with a TurnUndead only by an instance that just renewed its identity");
        }
        return;
    }

    // ---- active sender -----------------------------------------------------------------
    if dies_by_update {
        check_death(&pre, &post, &f, &rt);
    }
    if refutes {
        vassert!(post.incarnation == u_inc + 1, "c10: refutation bumps to the suspected incarnation plus one");
        let mut dd = 0;
        while dd < NS {
            if dd < rt.ns {
                if let Some(h) = rt.header(dd) {
                    vassert!(h.src_incarnation == post.incarnation, "c04: every datagram after a suspicion (the reply included) carries the refuting incarnation");
                }
            }
            dd += 1;
        }
    }
    // custom item delivery
    if let (Some(a), Some(b)) = (d.item, d.item2) {
        vassert!(post.handler_n == pre.handler_n + 2, "c16: the handler sees each received item once");
        let (b0, l0, s0) = f.broadcast_handler.items[pre.handler_n];
        let (b1, l1, s1) = f.broadcast_handler.items[pre.handler_n + 1];
        vassert!(l0 == 3 && b0[0] == a[0] && b0[1] == a[1] && b0[2] == a[2] && s0 == Some(d.src)
            && l1 == 3 && b1[0] == b[0] && b1[1] == b[1] && b1[2] == b[2] && s1 == Some(d.src),
            "c16: the handler sees exactly the items sent, in order, with the sender's identity");
    } else if let Some(it) = d.item {
        vassert!(post.handler_n == pre.handler_n + 1, "c16: the handler sees each received item once");
        let (b, l, snd) = f.broadcast_handler.items[pre.handler_n];
        vassert!(l == 3 && b[0] == it[0] && b[1] == it[1] && b[2] == it[2] && snd == Some(d.src),
            "c16: the handler sees exactly the bytes sent together with the sender's identity");
    } else {
        vassert!(post.handler_n == pre.handler_n, "c16: no item, no handler call");
    }

    // reaction to the message itself, only when connected after the updates
    let connected = post.conn == ConnectionState::Connected;
    let mut n_gossip = 0;
    let mut dg = 0;
    while dg < NS {
        if dg < rt.ns && rt.tag(dg) == 8 {
            n_gossip += 1;
        }
        dg += 1;
    }
    vassert!(n_gossip <= pre.cfg_fanout, "c18: reactive gossip goes to at most num_indirect_probes members");
    let replies = rt.ns - n_gossip;
    let last = if rt.ns > 0 { rt.ns - 1 } else { 0 };

    // reachability witnesses (guarded by the harness's message kind)
    let cur_n = d.n == pre.probe.probe_number;
    let from_target = pre.probe.direct.as_ref().map(|m| *m.id() == d.src).unwrap_or(false);
    let from_helper = pre.probe.indirect.iter().any(|x| *x == d.src);
    let steady = connected && pre.conn == ConnectionState::Connected && !dies_by_update;
    vcover!(tag != 0 || connected, "ping answered");
    vcover!(tag != 1 || (steady && from_target && cur_n), "ack accepted as evidence");
    vcover!(tag != 1 || (steady && from_target && !cur_n), "ack with a stale probe number");
    vcover!(tag != 5 || (steady && from_helper && cur_n && d.arg != me), "forwarded ack accepted as evidence");
    vcover!(tag != 5 || (steady && from_helper && !cur_n), "forwarded ack with a stale number");
    vcover!(tag != 5 || (steady && !from_helper && cur_n), "forwarded ack from an unasked member");
    vcover!(tag != 2 || (connected && d.arg == me), "relay request naming ourselves");
    vcover!(tag != 10 || me.renew != RenewMode::Next || (post.identity != me), "TurnUndead leads to renewal");
    vcover!(tag != 10 || me.renew == RenewMode::Next || (post.identity == me && post.conn == ConnectionState::Undead && pre.conn != ConnectionState::Undead), "TurnUndead leads to Defunct");

    match msg {
        Message::Ping(n) => {
            if connected {
                vassert!(r.is_ok(), "c12: Ping is handled");
                vassert!(replies == 1 && rt.sent[last].dst == d.src, "c12: a connected instance answers Ping with exactly one datagram to the sender");
                vassert!(rt.header(last).map(|h| h.message == Message::Ack(n)).unwrap_or(false), "c12: Ping(n) is answered with Ack(n)");
            } else {
                vassert!(replies == 0, "c03: an instance that is not active (defunct/idle) does not answer probes");
            }
        }
        Message::Ack(n) => {
            vassert!(replies == 0 && r.is_ok(), "c18: Ack triggers no reply");
            let hit = connected && pre.conn == ConnectionState::Connected && !dies_by_update
                && pre.probe.direct.as_ref().map(|m| *m.id() == d.src).unwrap_or(false) && n == pre.probe.probe_number;
            if hit {
                vassert!(post.probe.direct_ack_ok, "c12: Ack from the probed member with the current number is evidence");
            } else if post.conn == ConnectionState::Connected && pre.conn == ConnectionState::Connected && !dies_by_update {
                vassert!(post.probe.direct_ack_ok == pre.probe.direct_ack_ok, "c12: an Ack from anyone else or with another number is no evidence");
            }
            vassert!(post.probe.indirect_ack_count == pre.probe.indirect_ack_count || post.probe.direct.is_none(), "c12: Ack never counts as indirect evidence");
        }
        Message::PingReq { target, probe_number } => {
            if connected && target == post.identity {
                vassert!(matches!(r, Err(Error::IndirectForOurselves)) && replies == 0, "c12: a relay request naming the instance itself is rejected");
            } else if connected {
                vassert!(r.is_ok() && replies == 1 && rt.sent[last].dst == target, "c12: PingReq is relayed to its target");
                vassert!(rt.header(last).map(|h| h.message == Message::IndirectPing { origin: d.src, probe_number }).unwrap_or(false),
                    "c12: PingReq -> IndirectPing preserves origin and probe number");
            } else {
                vassert!(replies == 0, "c12: no relay when not connected");
            }
        }
        Message::IndirectPing { origin, probe_number } => {
            if connected && origin == post.identity {
                vassert!(matches!(r, Err(Error::IndirectForOurselves)) && replies == 0, "c12: a relay request naming the instance itself is rejected");
            } else if connected {
                vassert!(r.is_ok() && replies == 1 && rt.sent[last].dst == d.src, "c12: IndirectPing is answered to the relay");
                vassert!(rt.header(last).map(|h| h.message == Message::IndirectAck { target: origin, probe_number }).unwrap_or(false),
                    "c12: IndirectPing -> IndirectAck preserves origin and probe number");
            } else {
                vassert!(replies == 0, "c12: no relay when not connected");
            }
        }
        Message::IndirectAck { target, probe_number } => {
            if connected && target == post.identity {
                vassert!(matches!(r, Err(Error::IndirectForOurselves)) && replies == 0, "c12: a relay request naming the instance itself is rejected");
            } else if connected {
                vassert!(r.is_ok() && replies == 1 && rt.sent[last].dst == target, "c12: IndirectAck is forwarded to the origin");
                vassert!(rt.header(last).map(|h| h.message == Message::ForwardedAck { origin: d.src, probe_number }).unwrap_or(false),
                    "c12: IndirectAck -> ForwardedAck preserves target and probe number");
            } else {
                vassert!(replies == 0, "c12: no relay when not connected");
            }
        }
        Message::ForwardedAck { origin, probe_number } => {
            vassert!(replies == 0, "c18: ForwardedAck triggers no reply");
            if connected && origin == post.identity {
                vassert!(matches!(r, Err(Error::IndirectForOurselves)), "c12: a relay request naming the instance itself is rejected");
            } else if connected && pre.conn == ConnectionState::Connected && !dies_by_update {
                let asked = pre.probe.indirect.iter().any(|x| *x == d.src);
                let hit = asked && probe_number == pre.probe.probe_number;
                if hit {
                    vassert!(post.probe.indirect_ack_count == pre.probe.indirect_ack_count + 1, "c12: ForwardedAck from an asked helper with the current number is evidence");
                    vassert!(!post.probe.indirect.iter().any(|x| *x == d.src), "c12: each helper is counted once");
                } else {
                    vassert!(post.probe.indirect_ack_count == pre.probe.indirect_ack_count && post.probe.indirect == pre.probe.indirect,
                        "c12: ForwardedAck from an unasked member or with another number is no evidence");
                }
                vassert!(post.probe.direct_ack_ok == pre.probe.direct_ack_ok, "c12: ForwardedAck never counts as direct evidence");
            }
        }
        Message::Announce => {
            if connected {
                vassert!(r.is_ok() && replies == 1 && rt.sent[last].dst == d.src && rt.tag(last) == 7, "c02: Announce is answered with a Feed to the sender");
            } else {
                vassert!(replies == 0, "c02: no Feed when not connected");
            }
        }
        Message::TurnUndead => {
            vassert!(r.is_ok(), "c18: TurnUndead is handled");
            // honoured unless already defunct
            if pre.conn != ConnectionState::Undead {
                check_death(&pre, &post, &f, &rt);
            } else {
                vassert!(post.conn == ConnectionState::Undead && post.identity == me && rt.ns == 0, "c18: a defunct instance ignores a further TurnUndead");
            }
            let mut dd = 0;
            while dd < NS {
                if dd < rt.ns {
                    vassert!(rt.tag(dd) == 8, "c18: TurnUndead from an active member is never answered directly");
                }
                dd += 1;
            }
        }
        Message::Gossip | Message::Feed | Message::Broadcast => {
            vassert!(replies == 0 && r.is_ok(), "c18: Gossip, Feed and Broadcast trigger no reply");
        }
    }
    vassert!(rt.ns == replies + n_gossip, "c18: only replies and reactive gossip are sent");
    if !gossips && !((dies_by_update || dies_by_msg) && post.identity != me) {
        vassert!(n_gossip == 0, "c18: Gossip is emitted only in reaction to a suspicion about oneself or an identity change");
    }
}

fn sh(k: usize) -> Shape {
    Shape::k(k)
}

macro_rules! dh {
    ($name:ident, $tag:expr, $tail:expr, $shape:expr) => {
        pub fn $name<S: Src>(s: &mut S) {
            d_step(s, $tag, $tail, $shape)
        }
    };
}

// header-only / empty member section, K = 2
dh!(d_ping, 0, Tail::Zero, sh(2));
dh!(d_ack, 1, Tail::Zero, sh(2));
dh!(d_pingreq, 2, Tail::Zero, sh(2));
dh!(d_indirect_ping, 3, Tail::Zero, sh(2));
dh!(d_indirect_ack, 4, Tail::Zero, sh(2));
dh!(d_fwd_ack, 5, Tail::Zero, {
    let mut x = sh(2);
    x.n_ind = 1;
    x
});
dh!(d_announce, 6, Tail::None, {
    let mut x = sh(1);
    x.pkt = 17;
    x
});
dh!(d_announce_32, 6, Tail::None, sh(1));
dh!(d_announce_k2, 6, Tail::None, sh(2));
dh!(d_feed, 7, Tail::Zero, sh(2));
dh!(d_gossip, 8, Tail::Zero, sh(2));
dh!(d_broadcast, 9, Tail::None, sh(2));
dh!(d_turn_undead, 10, Tail::None, sh(1));
// non-renewable identity (the case in which two members can bounce TurnUndead)
dh!(d_turn_undead_never, 10, Tail::None, {
    let mut x = sh(1);
    x.renew = Some(RenewMode::Never);
    x
});
// renew() yields an identity that loses the conflict: must be treated as not renewable
dh!(d_turn_undead_losing, 10, Tail::None, {
    let mut x = sh(0);
    x.probe = false;
    x.renew = Some(RenewMode::Losing);
    x.fanout = Some(1);
    x
});
dh!(d_turn_undead_next, 10, Tail::None, {
    let mut x = sh(1);
    x.renew = Some(RenewMode::Next);
    x.fanout = Some(1);
    x
});
dh!(d_turn_undead_k2, 10, Tail::None, sh(2));
// one piggybacked update
dh!(d_ping_upd, 0, Tail::One, sh(1));
dh!(d_ping_upd_k2, 0, Tail::One, sh(2));
dh!(d_gossip_upd, 8, Tail::One, sh(1));
dh!(d_gossip_upd_k2, 8, Tail::One, sh(2));
// smallest instance of "datagram carrying one fully symbolic update": no prior record,
// no probe in flight, fan-out 1, non-renewable identity (the renewable variants need > 24 GB)
dh!(d_gossip_upd_never, 8, Tail::One, {
    let mut x = sh(0);
    x.probe = false;
    x.fanout = Some(1);
    x.renew = Some(RenewMode::Never);
    x
});
dh!(d_ping_upd_never, 0, Tail::One, {
    let mut x = sh(0);
    x.probe = false;
    x.fanout = Some(1);
    x.renew = Some(RenewMode::Never);
    x
});
dh!(d_feed_upd, 7, Tail::One, sh(1));
// a Feed that fills the packet completely (max_packet_size = 17 = header + count + one member)
dh!(d_feed_upd_tight, 7, Tail::One, {
    let mut x = sh(0);
    x.pkt = 17;
    x.probe = false;
    x.fanout = Some(1);
    x.renew = Some(RenewMode::Never);
    x
});
dh!(d_ack_upd, 1, Tail::One, sh(1));
// custom broadcast items
dh!(d_gossip_custom, 8, Tail::Custom, sh(1));
dh!(d_broadcast_custom, 9, Tail::CustomOnly, sh(1));
dh!(d_ack_custom2, 1, Tail::Custom2, sh(1));
// two helpers asked: each counted once
dh!(d_fwd_ack_2, 5, Tail::Zero, {
    let mut x = sh(2);
    x.n_ind = 2;
    x.fanout = Some(2);
    x
});
