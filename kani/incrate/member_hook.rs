//! Child module of `foca::member` (hook): raw construction / inspection of `Members`.
use super::{Member, Members};
use alloc::vec::Vec;

impl<T> Members<T> {
    pub(crate) fn verif_raw(inner: Vec<Member<T>>, cursor: usize, num_active: usize) -> Self {
        Self {
            inner,
            cursor,
            num_active,
        }
    }
    pub(crate) fn verif_cursor(&self) -> usize {
        self.cursor
    }
    pub(crate) fn verif_num_active_field(&self) -> usize {
        self.num_active
    }
}
