//! C17 (rejected input leaves no trace), C06 (adversarial bytes, set_config),
//! C16 (add_broadcast / broadcast()), C13 (set_config).
use alloc::vec::Vec;

use super::kit::*;
use super::oracle::*;
use super::state::*;
use crate::{Config, ConnectionState, Error, Message, State};

fn header_bytes(src: Id, inc: u16, dst: Id, tag: u8, arg: Id, n: u8) -> [u8; HDR] {
    [src.addr, src.gen, (inc >> 8) as u8, inc as u8, dst.addr, dst.gen, tag, arg.addr, arg.gen, n]
}

/// Larger than max_packet_size: rejected whatever it contains.
pub fn c17_oversize<S: Src>(s: &mut S) {
    let mut sh = Shape::k(1);
    sh.pkt = 12;
    let mut f = arb_foca(s, sh);
    let pre = snap(&f);
    // (message kind concrete: with a symbolic kind CBMC encodes every message path
    // behind the size check although none is reachable)
    let data = [s.u8(), s.u8(), s.u8(), s.u8(), s.u8(), s.u8(), 8, s.u8(), s.u8(), s.u8(), s.u8(), s.u8(), s.u8()];
    let mut rt = LogRt::new();
    let r = f.handle_data(&data[..], &mut rt);
    let post = snap(&f);
    vassert!(matches!(r, Err(Error::DataTooBig)), "c17: data larger than max_packet_size is rejected");
    vassert!(rt.is_silent() && post.identical(&pre), "c17: oversized data leaves no trace");
}

/// Undecodable header: truncated to `l` bytes (`l < 10`), or an invalid tag
/// (`l == 10`). Lengths are concrete per instance (a symbolic-length buffer
/// makes CBMC encode every message path behind the decode error).
fn bad_header<S: Src>(s: &mut S, l: usize, tag: u8) {
    let mut f = arb_foca(s, Shape::k(1));
    let pre = snap(&f);
    let src = Id::arb(s);
    let dst = pre.identity;
    let full = header_bytes(src, s.u16(), dst, tag, Id::arb(s), s.u8());
    let mut rt = LogRt::new();
    let r = f.handle_data(&full[..l], &mut rt);
    let post = snap(&f);
    vassert!(matches!(r, Err(Error::Decode(_))), "c17: an undecodable header is a decode error");
    vassert!(rt.is_silent() && post.identical(&pre), "c17: an undecodable header leaves no trace");
    vcover!(src.addr != pre.identity.addr, "foreign sender");
}
pub fn c17_bad_header_0<S: Src>(s: &mut S) {
    bad_header(s, 0, 8)
}
pub fn c17_bad_header_5<S: Src>(s: &mut S) {
    bad_header(s, 5, 8)
}
pub fn c17_bad_header_9<S: Src>(s: &mut S) {
    bad_header(s, 9, 0)
}
pub fn c17_bad_header_tag11<S: Src>(s: &mut S) {
    bad_header(s, 10, 11)
}
pub fn c17_bad_header_tag255<S: Src>(s: &mut S) {
    bad_header(s, 10, 255)
}

/// Valid header (Gossip) addressed to the instance, member list undecodable.
fn bad_member<S: Src>(s: &mut S, variant: u8) {
    let mut f = arb_foca(s, Shape::k(1));
    let pre = snap(&f);
    let src = Id::arb(s);
    s.assume(src.addr != pre.identity.addr);
    let h = header_bytes(src, s.u16(), pre.identity, 8, Id::arb(s), s.u8());
    let mut data = [0u8; 24];
    data[..HDR].copy_from_slice(&h);
    let len;
    match variant {
        0 => {
            // count says 1, member truncated
            data[HDR..HDR + 5].copy_from_slice(&[0, 1, s.u8(), s.u8(), s.u8()]);
            len = HDR + 5;
        }
        1 => {
            // invalid state tag (concrete values: with a symbolic one the decode error
            // is not a constant and CBMC explores the rest of handle_data on garbage)
            let st = 3;
            data[HDR..HDR + 7].copy_from_slice(&[0, 1, s.u8(), s.u8(), s.u8(), s.u8(), st]);
            len = HDR + 7;
        }
        3 => {
            let st = 255;
            data[HDR..HDR + 7].copy_from_slice(&[0, 1, s.u8(), s.u8(), s.u8(), s.u8(), st]);
            len = HDR + 7;
        }
        _ => {
            // count says 2, only one member present
            data[HDR..HDR + 7].copy_from_slice(&[0, 2, s.u8(), s.u8(), s.u8(), s.u8(), 0]);
            len = HDR + 7;
        }
    }
    let mut rt = LogRt::new();
    let r = f.handle_data(&data[..len], &mut rt);
    let post = snap(&f);
    vassert!(matches!(r, Err(Error::Decode(_))), "c17: an undecodable member list is a decode error");
    vassert!(rt.is_silent() && post.identical(&pre), "c17: an undecodable member list leaves no trace (the sender is not even recorded)");
    vcover!(pre.n == 1, "one known member");
}
pub fn c17_bad_member_trunc<S: Src>(s: &mut S) {
    bad_member(s, 0)
}
pub fn c17_bad_member_state<S: Src>(s: &mut S) {
    bad_member(s, 1)
}
pub fn c17_bad_member_count<S: Src>(s: &mut S) {
    bad_member(s, 2)
}
pub fn c17_bad_member_state255<S: Src>(s: &mut S) {
    bad_member(s, 3)
}

/// One trailing byte right after the header.
pub fn c17_trailing_byte<S: Src>(s: &mut S) {
    trailing_byte(s, 8)
}
pub fn c17_trailing_byte_ping<S: Src>(s: &mut S) {
    trailing_byte(s, 0)
}
pub fn c17_trailing_byte_turn_undead<S: Src>(s: &mut S) {
    trailing_byte(s, 10)
}
fn trailing_byte<S: Src>(s: &mut S, tag: u8) {
    let mut f = arb_foca(s, Shape::k(1));
    let pre = snap(&f);
    let src = Id::arb(s);
    s.assume(src.addr != pre.identity.addr);
    let h = header_bytes(src, s.u16(), pre.identity, tag, Id::arb(s), s.u8());
    let mut data = [0u8; 11];
    data[..HDR].copy_from_slice(&h);
    data[HDR] = s.u8();
    let mut rt = LogRt::new();
    let r = f.handle_data(&data[..], &mut rt);
    let post = snap(&f);
    vassert!(matches!(r, Err(Error::MalformedPacket)), "c17: a single trailing byte is malformed");
    vassert!(rt.is_silent() && post.identical(&pre), "c17: malformed framing right after the header leaves no trace");
}

/// Adversarial payload after a decodable header of a fixed kind: `T` arbitrary
/// bytes. Never panics; errors are only of the documented kinds.
fn fuzz_tail<S: Src>(s: &mut S, tag: u8, t: usize) {
    let mut f = arb_foca(s, Shape::k(1));
    let pre = snap(&f);
    let src = Id::arb(s);
    let h = header_bytes(src, s.u16(), Id::arb(s), tag, Id::arb(s), s.u8());
    let mut data = [0u8; 19];
    data[..HDR].copy_from_slice(&h);
    let tail = [s.u8(), s.u8(), s.u8(), s.u8(), s.u8(), s.u8(), s.u8(), s.u8(), s.u8()];
    data[HDR..].copy_from_slice(&tail);
    let mut rt = LogRt::new();
    let r = f.handle_data(&data[..HDR + t], &mut rt);
    let post = snap(&f);
    vassert!(!rt.overflow, "c18: bounded effects for any payload");
    vassert!(inv_holds(&f), "c09: representation invariant preserved for any payload");
    vassert!(rt.ns <= 1 + 2 * pre.cfg_fanout, "c18: one delivered datagram causes a bounded number of new datagrams");
    match r {
        Ok(()) => {}
        Err(Error::Decode(_)) | Err(Error::MalformedPacket) | Err(Error::DataFromOurselves) | Err(Error::IndirectForOurselves)
        | Err(Error::CustomBroadcast(_)) => {}
        Err(_) => vassert!(false, "c06: only documented errors for arbitrary payloads"),
    }
    vcover!(r.is_ok() && post.n > pre.n, "payload accepted and a member learned");
    let mut d = 0;
    while d < NS {
        if d < rt.ns {
            vassert!(rt.sent[d].len <= pre.cfg_pkt && rt.header(d).is_some(), "c07: replies to adversarial input are still well-formed");
        }
        d += 1;
    }
}

pub fn c06_fuzz_gossip_7<S: Src>(s: &mut S) {
    fuzz_tail(s, 8, 7)
}
pub fn c06_fuzz_gossip_9<S: Src>(s: &mut S) {
    fuzz_tail(s, 8, 9)
}
pub fn c06_fuzz_ping_7<S: Src>(s: &mut S) {
    fuzz_tail(s, 0, 7)
}
pub fn c06_fuzz_broadcast_5<S: Src>(s: &mut S) {
    fuzz_tail(s, 9, 5)
}
pub fn c06_fuzz_feed_2<S: Src>(s: &mut S) {
    fuzz_tail(s, 7, 2)
}
pub fn c06_fuzz_turnundead_3<S: Src>(s: &mut S) {
    fuzz_tail(s, 10, 3)
}

fn cfg_eq(a: &Config, b: &Config) -> bool {
    a.probe_period == b.probe_period
        && a.probe_rtt == b.probe_rtt
        && a.num_indirect_probes == b.num_indirect_probes
        && a.max_transmissions == b.max_transmissions
        && a.suspect_to_down_after == b.suspect_to_down_after
        && a.remove_down_after == b.remove_down_after
        && a.max_packet_size == b.max_packet_size
        && a.notify_down_members == b.notify_down_members
        && a.periodic_announce.as_ref().map(|p| (p.frequency, p.num_members))
            == b.periodic_announce.as_ref().map(|p| (p.frequency, p.num_members))
        && a.periodic_announce_to_down_members.as_ref().map(|p| (p.frequency, p.num_members))
            == b.periodic_announce_to_down_members.as_ref().map(|p| (p.frequency, p.num_members))
        && a.periodic_gossip.as_ref().map(|p| (p.frequency, p.num_members))
            == b.periodic_gossip.as_ref().map(|p| (p.frequency, p.num_members))
}

/// `set_config(c')` followed by a send: legality rule, no trace on refusal, no
/// lost loop on acceptance, and no panic afterwards whatever `max_packet_size'`.
fn set_config_then_send<S: Src>(s: &mut S, new_pkt: usize, with_gossip: bool) {
    let mut f = arb_foca(s, Shape::k(1));
    let pre = snap(&f);
    let old_cfg = f.config.clone();
    let mut c = arb_config(s, new_pkt);
    let variant = s.below(3);
    if variant == 1 {
        c.probe_period = core::time::Duration::from_secs(8);
    }
    if variant == 2 {
        c.probe_rtt = core::time::Duration::from_secs(2);
    }
    let enabling = (old_cfg.periodic_announce.is_none() && c.periodic_announce.is_some())
        || (old_cfg.periodic_announce_to_down_members.is_none() && c.periodic_announce_to_down_members.is_some())
        || (old_cfg.periodic_gossip.is_none() && c.periodic_gossip.is_some());
    let legal = variant == 0 && !enabling;
    let r = f.set_config(c.clone());
    let mid = snap(&f);
    vcover!(legal, "legal configuration change");
    vcover!(variant == 0 && enabling, "enabling a periodic task at runtime");
    if !legal {
        vassert!(matches!(r, Err(Error::InvalidConfig)), "c13: changing probe timing or enabling a periodic task is refused");
        vassert!(cfg_eq(&f.config, &old_cfg) && mid.identical(&pre), "c17: a refused set_config leaves every parameter unchanged");
        return;
    }
    vassert!(r.is_ok() && cfg_eq(&f.config, &c), "c13: a legal configuration is taken over");
    vassert!(mid.same_members(&pre) && mid.conn == pre.conn && mid.token == pre.token && mid.incarnation == pre.incarnation && mid.probe == pre.probe,
        "c13: set_config changes no protocol state");
    // ... and the instance keeps working: any send afterwards must not panic
    let dst = Id::arb(s);
    let mut rt = LogRt::new();
    let r2 = f.announce(dst, &mut rt);
    vassert!(r2.is_ok() && rt.ns == 1 && rt.sent[0].len == HDR, "c06: sending after set_config works");
    if with_gossip {
        let mut rt2 = LogRt::new();
        let r3 = f.gossip(&mut rt2);
        vassert!(r3.is_ok(), "c06: gossip after set_config works");
        let mut d = 0;
        while d < NS {
            if d < rt2.ns {
                vassert!(rt2.sent[d].len <= new_pkt, "c07: datagrams honour the new max_packet_size");
            }
            d += 1;
        }
    }
}

pub fn c06_set_config_same<S: Src>(s: &mut S) {
    set_config_then_send(s, 32, false)
}
pub fn c06_set_config_gossip<S: Src>(s: &mut S) {
    set_config_then_send(s, 32, true)
}
pub fn c06_set_config_grow<S: Src>(s: &mut S) {
    set_config_then_send(s, 36, false)
}
pub fn c06_set_config_shrink<S: Src>(s: &mut S) {
    set_config_then_send(s, 16, false)
}

/// `add_broadcast(data)`.
pub fn c16_add_broadcast<S: Src>(s: &mut S) {
    let mut sh = Shape::k(1);
    sh.pkt = 12;
    sh.handler_arb = true;
    let mut f = arb_foca(s, sh);
    let pre = snap(&f);
    let variant = s.below(3);
    let mut data: Vec<u8> = Vec::with_capacity(16);
    match variant {
        0 => {}
        1 => data.extend_from_slice(&[s.u8(), s.u8(), s.u8()]),
        _ => data.extend_from_slice(&[1, 2, 3, 4, 5, 6, 7, 8, 9, 10, 11, 12, 13]),
    }
    let r = f.add_broadcast(&data);
    let post = snap(&f);
    match variant {
        0 => {
            vassert!(matches!(r, Err(Error::MalformedPacket)), "c17: an empty broadcast is rejected");
            vassert!(post.identical(&pre), "c17: a rejected add_broadcast leaves no trace");
        }
        2 => {
            vassert!(matches!(r, Err(Error::DataTooBig)), "c17: a broadcast larger than a packet is rejected");
            vassert!(post.identical(&pre), "c17: a rejected add_broadcast leaves no trace");
        }
        _ => {
            vassert!(post.handler_n == pre.handler_n + 1, "c16: the handler sees a locally added item once");
            let (b, l, snd) = f.broadcast_handler.items[pre.handler_n];
            vassert!(l == 3 && b[0] == data[0] && b[1] == data[1] && b[2] == data[2] && snd.is_none(), "c16: the handler sees the exact bytes, without a sender");
            match f.broadcast_handler.mode {
                0 => vassert!(matches!(r, Ok(true)), "c16: an accepted item is reported as queued"),
                1 => vassert!(matches!(r, Ok(false)), "c16: a discarded item is reported as not queued"),
                _ => vassert!(matches!(r, Err(Error::CustomBroadcast(_))), "c16: handler errors are forwarded"),
            }
            vassert!(post.same_members(&pre) && post.conn == pre.conn && post.token == pre.token && post.rng_pos == pre.rng_pos,
                "c16: add_broadcast touches nothing but the custom backlog");
        }
    }
    vcover!(variant == 1 && f.broadcast_handler.mode == 0, "item accepted");
}

/// `broadcast()`.
pub fn c16_broadcast<S: Src>(s: &mut S, custom: usize) {
    let mut sh = Shape::k(2);
    sh.custom = custom;
    sh.backlog = 1;
    sh.handler_arb = true;
    sh.probe = false;
    let mut f = arb_foca(s, sh);
    let pre = snap(&f);
    let mut rt = LogRt::new();
    let r = f.broadcast(&mut rt);
    let post = snap(&f);
    vassert!(r.is_ok(), "c06: broadcast never fails with a total codec");
    post_common(&pre, &post, &f, &rt, Ctx::quiet());
    vassert!(rt.nn == 0 && rt.nt == 0, "c16: broadcast notifies and schedules nothing");
    if custom == 0 {
        vassert!(rt.ns == 0 && post.rng_pos == pre.rng_pos, "c16: broadcast sends nothing when the backlog is empty");
        return;
    }
    // eligible = active members the handler allows
    let mut eligible = 0;
    let mut i = 0;
    while i < KMAX {
        if i < pre.n && pre.recs[i].2 != State::Down && f.broadcast_handler.allows(&pre.recs[i].0) {
            eligible += 1;
        }
        i += 1;
    }
    let want = if eligible < pre.cfg_fanout { eligible } else { pre.cfg_fanout };
    vassert!(rt.ns <= want, "c16: broadcast goes to at most num_indirect_probes eligible members");
    vassert!(want == 0 || rt.ns >= 1, "c16: broadcast disseminates when an eligible member exists");
    vcover!(rt.ns == 2, "two broadcast datagrams");
    vcover!(eligible == 0, "nobody eligible");
    let mut d = 0;
    while d < NS {
        if d < rt.ns {
            let dst = rt.sent[d].dst;
            vassert!(rt.tag(d) == 9, "c16: broadcast() sends only Broadcast datagrams");
            vassert!(pre.is_active(dst) && f.broadcast_handler.allows(&dst), "c16: only to active members for which should_add_broadcast_data is true");
            // no member section: what follows the header is a length-prefixed item
            vassert!(rt.sent[d].len >= HDR + 2 + 1 && rt.sent[d].data[HDR] == 0 && rt.sent[d].data[HDR + 1] == 3,
                "c16: Broadcast datagrams carry items, never member updates");
            let mut e = 0;
            while e < d {
                vassert!(rt.sent[e].dst != dst, "c16: broadcast targets are distinct");
                e += 1;
            }
        }
        d += 1;
    }
    vassert!(post.updates_len == pre.updates_len && post.enc_n == pre.enc_n && post.same_members(&pre), "c16: broadcast() touches no membership state and no update backlog");
}

/// `broadcast()` with an empty custom backlog (pending updates do not count): nothing at all happens
pub fn c16_broadcast_empty<S: Src>(s: &mut S) {
    let mut sh = Shape::k(2);
    sh.backlog = 1;
    sh.handler_arb = true;
    sh.probe = false;
    let mut f = arb_foca(s, sh);
    let pre = snap(&f);
    let mut rt = LogRt::new();
    let r = f.broadcast(&mut rt);
    let post = snap(&f);
    vassert!(r.is_ok(), "c06: broadcast never fails with a total codec");
    vassert!(rt.is_silent() && post.identical(&pre), "c16: broadcast sends nothing when the backlog is empty");
    vcover!(pre.num_active == 2, "two candidates, nothing to send");
}
pub fn c16_broadcast_one<S: Src>(s: &mut S) {
    c16_broadcast(s, 1)
}

/// Announce with any payload is malformed and leaves no trace.
pub fn c17_announce_payload<S: Src>(s: &mut S) {
    let mut f = arb_foca(s, Shape::k(1));
    let pre = snap(&f);
    let src = Id::arb(s);
    s.assume(src.addr != pre.identity.addr);
    let dst = Id::arb(s);
    let h = header_bytes(src, s.u16(), dst, 6, Id::arb(s), s.u8());
    let mut data = [0u8; 17];
    data[..HDR].copy_from_slice(&h);
    let long = s.bool();
    data[HDR..].copy_from_slice(&[0, 1, s.u8(), s.u8(), s.u8(), s.u8(), 0]);
    let mut rt = LogRt::new();
    let r = if long { f.handle_data(&data[..], &mut rt) } else { f.handle_data(&data[..HDR + 2], &mut rt) };
    let post = snap(&f);
    vassert!(matches!(r, Err(Error::MalformedPacket)), "c07: Announce carries nothing after the header; anything else is malformed");
    vassert!(rt.is_silent() && post.identical(&pre), "c17: malformed framing right after the header leaves no trace");
    vcover!(long, "announce with a member section");
}

/// Re-applying an instance's own full state changes nothing.
pub fn a_own_state_noop<S: Src>(s: &mut S) {
    let mut f = arb_foca(s, Shape::k(2));
    let pre = snap(&f);
    let do_broadcast = s.bool();
    let own: Vec<crate::Member<Id>> = f.iter_membership_state().cloned().collect();
    let mut rt = LogRt::new();
    let r = f.apply_many(own.into_iter(), do_broadcast, &mut rt);
    let post = snap(&f);
    vassert!(r.is_ok(), "c06: apply_many never fails with a total codec");
    // (an idle instance that already knows members is connected by any apply_many call)
    let wakes = pre.conn == ConnectionState::Disconnected && pre.num_active > 0;
    vassert!(post.same_members(&pre) && post.enc_n == pre.enc_n && rt.ns == 0, "c01: re-applying an instance's own full state changes nothing");
    vassert!(wakes || (rt.is_silent() && post.identical(&pre)), "c01: re-applying an instance's own full state has no effect at all");
    vcover!(pre.n == 2 && pre.num_active == 1, "one active and one down record");
}

/// AccumulatingRuntime yields the same notifications and timers, per queue in
/// the same order, as a directly implemented Runtime (three calls, kinds symbolic).
pub fn c08_accumulating_runtime<S: Src>(s: &mut S) {
    accumulating(s, 0b101)
}
pub fn c08_accumulating_runtime_b<S: Src>(s: &mut S) {
    accumulating(s, 0b010)
}
/// `mask`: which of the three calls are notifications (concrete: a symbolic call
/// sequence makes the `VecDeque` ring arithmetic intractable); ids, tokens symbolic.
fn accumulating<S: Src>(s: &mut S, mask: u8) {
    use crate::{AccumulatingRuntime, Notification, OwnedNotification, Runtime, Timer};
    let mut acc: AccumulatingRuntime<Id> = AccumulatingRuntime::new();
    let mut log = LogRt::new();
    let a = Id::arb(s);
    let b = Id::arb(s);
    let k0 = mask & 1 != 0;
    let k1 = mask & 2 != 0;
    let k2 = mask & 4 != 0;
    let tok = s.u8();
    macro_rules! call {
        ($k:expr, $id:expr, $n:expr) => {
            if $k {
                acc.notify(Notification::MemberUp(&$id));
                log.notify(Notification::MemberUp(&$id));
            } else {
                acc.submit_after(Timer::ProbeRandomMember(tok.wrapping_add($n)), D_PERIOD);
                log.submit_after(Timer::ProbeRandomMember(tok.wrapping_add($n)), D_PERIOD);
            }
        };
    }
    call!(k0, a, 1);
    call!(k1, b, 2);
    call!(k2, a, 3);
    vassert!(acc.backlog() == log.nt + log.nn, "c08: AccumulatingRuntime holds exactly the effects produced");
    let mut i = 0;
    while i < 3 {
        if i < log.nt {
            match (acc.to_schedule(), &log.timers[i]) {
                (Some((d, t)), Some((t2, d2))) => vassert!(d == *d2 && t == *t2, "c08: AccumulatingRuntime yields the same timers in the same order"),
                _ => vassert!(false, "c08: AccumulatingRuntime loses no timer"),
            }
        }
        if i < log.nn {
            match (acc.to_notify(), log.notes[i]) {
                (Some(OwnedNotification::MemberUp(x)), Note::Up(y)) => vassert!(x == y, "c08: AccumulatingRuntime yields the same notifications in the same order"),
                _ => vassert!(false, "c08: AccumulatingRuntime loses no notification"),
            }
        }
        i += 1;
    }
    vassert!(acc.to_send().is_none() && acc.to_schedule().is_none() && acc.to_notify().is_none() && acc.backlog() == 0,
        "c08: AccumulatingRuntime yields nothing else");
    vcover!(a != b, "two identities");
}

/// ... and the same datagrams: two `send_to` calls (concrete lengths, symbolic
/// destinations and bytes) come back in order, byte for byte.
pub fn c08_accumulating_send<S: Src>(s: &mut S) {
    use crate::{AccumulatingRuntime, Runtime};
    let mut acc: AccumulatingRuntime<Id> = AccumulatingRuntime::new();
    let a = Id::arb(s);
    let b = Id::arb(s);
    let p = [s.u8(), s.u8(), s.u8()];
    acc.send_to(a, &p[..2]);
    acc.send_to(b, &p[..]);
    vassert!(acc.backlog() == 2, "c08: AccumulatingRuntime holds exactly the effects produced");
    match acc.to_send() {
        Some((dst, bytes)) => vassert!(dst == a && bytes.len() == 2 && bytes[0] == p[0] && bytes[1] == p[1], "c08: AccumulatingRuntime yields the same datagrams in the same order"),
        None => vassert!(false, "c08: AccumulatingRuntime loses no datagram"),
    }
    match acc.to_send() {
        Some((dst, bytes)) => vassert!(dst == b && bytes.len() == 3 && bytes[0] == p[0] && bytes[2] == p[2], "c08: AccumulatingRuntime yields the datagram bytes unchanged"),
        None => vassert!(false, "c08: AccumulatingRuntime loses no datagram"),
    }
    vassert!(acc.to_send().is_none() && acc.backlog() == 0, "c08: AccumulatingRuntime yields nothing else");
    vcover!(a != b, "two destinations");
}

/// The update backlog is keyed by *address* (real `Broadcasts`, no stubs): two
/// accepted updates for the same address leave exactly the newer one queued;
/// for different addresses both stay. Addresses are concrete (a symbolic
/// invalidation makes the real heap intractable), everything else symbolic.
fn key_by_addr<S: Src>(s: &mut S, same: bool, fresh: bool) {
    use crate::member::{ApplySummary, ConflictResult};
    let mut sh = Shape::k(0);
    sh.probe = false;
    let mut f = arb_foca(s, sh);
    let a = Id::new(7, s.u8());
    let b = Id::new(if same { 7 } else { 8 }, s.u8());
    let ua = crate::Member::new(a, s.u16(), arb_state(s));
    let ub = crate::Member::new(b, s.u16(), arb_state(s));
    let ok = ApplySummary {
        is_active_now: true,
        apply_successful: true,
        changed_active_set: false,
        conflict: ConflictResult::NoConflict,
    };
    let mut rt = LogRt::new();
    let r1 = f.handle_apply_summary(ok, ua.clone(), true, &mut rt);
    vassert!(r1.is_ok() && f.updates_backlog() == 1, "c15: an accepted update enters the backlog");
    // the second update may also be reported as "registered a new active member"
    // (a forgotten member coming back while an update about it is still pending)
    // (concrete per instance: real heap operations must not sit under a symbolic guard)
    let ok = ApplySummary {
        is_active_now: true,
        apply_successful: true,
        changed_active_set: fresh,
        conflict: ConflictResult::NoConflict,
    };
    let r2 = f.handle_apply_summary(ok, ub.clone(), true, &mut rt);
    vassert!(r2.is_ok(), "c06: queuing an update never fails with a total codec");
    let snap = f.updates.verif_snapshot();
    if same {
        vassert!(f.updates_backlog() == 1 && snap.len() == 1, "c15: the backlog never holds more than one update per address");
        let d = &snap[0].1;
        vassert!(d.len() == MEM && d[1] == b.gen && d[2] == (ub.incarnation() >> 8) as u8 && d[3] == ub.incarnation() as u8 && d[4] == state_tag(ub.state()),
            "c15: the queued update is always the most recently accepted one");
        vassert!(snap[0].0 == f.config.max_transmissions.get() as usize, "c15: a fresher update restarts the transmission budget");
    } else {
        vassert!(f.updates_backlog() == 2, "c15: updates about different addresses are queued independently");
    }
    // with broadcasting disabled nothing is queued
    let ok2 = ApplySummary {
        is_active_now: true,
        apply_successful: true,
        changed_active_set: false,
        conflict: ConflictResult::NoConflict,
    };
    let before = f.updates_backlog();
    let r3 = f.handle_apply_summary(ok2, ua, false, &mut rt);
    vassert!(r3.is_ok() && f.updates_backlog() == before, "c15: applying updates with broadcasting disabled leaves the backlog untouched");
    vcover!(a.gen != b.gen, "different generations");
}

pub fn c15_key_same_addr<S: Src>(s: &mut S) {
    key_by_addr(s, true, false)
}
pub fn c15_key_returning<S: Src>(s: &mut S) {
    key_by_addr(s, true, true)
}
pub fn c15_key_diff_addr<S: Src>(s: &mut S) {
    key_by_addr(s, false, false)
}

/// `broadcast()` on the *real* backlog (no stubs): one pending item on its last
/// transmission, two eligible members: exactly one Broadcast datagram is sent and
/// the loop stops once the backlog is drained (also with updates pending).
pub fn c16_broadcast_drain<S: Src>(s: &mut S) {
    let mut sh = Shape::k(0);
    sh.probe = false;
    sh.fanout = Some(2);
    let mut f = arb_foca(s, sh);
    // two active, allowed members (concrete states: a symbolic selection would put the
    // real heap operations under symbolic guards)
    let a = Id::new(11, s.u8());
    let b = Id::new(12, s.u8());
    s.assume(f.identity.addr != 11 && f.identity.addr != 12);
    let mut inner = Vec::with_capacity(4);
    inner.push(crate::Member::new(a, s.u16(), State::Alive));
    inner.push(crate::Member::new(b, s.u16(), State::Suspect));
    f.members = crate::member::Members::verif_raw(inner, 0, 2);
    f.connection_state = ConnectionState::Connected;
    f.broadcast_handler = LogHandler::new(0, 0xFF);
    // a pending update (never carried by Broadcast) and one item with a single transmission left
    let mut upd = Vec::with_capacity(MEM);
    upd.extend_from_slice(&[200, 1, 0, 0, 0]);
    f.updates.verif_push_raw(crate::Addr(200), upd, 3);
    let mut item = Vec::with_capacity(3);
    item.extend_from_slice(&[100, 1, s.u8()]);
    f.custom_broadcasts.verif_push_raw(BKey { k: 100, v: 1 }, item, 1);
    let mut rt = LogRt::new();
    let r = f.broadcast(&mut rt);
    vassert!(r.is_ok(), "c06: broadcast never fails with a total codec");
    vassert!(rt.ns == 1, "c16: broadcast() stops once the backlog is drained");
    vassert!(rt.tag(0) == 9 && rt.sent[0].len == HDR + 5 && rt.sent[0].data[HDR] == 0 && rt.sent[0].data[HDR + 1] == 3 && rt.sent[0].data[HDR + 2] == 100,
        "c16: the item is retransmitted byte-for-byte as a whole item on a Broadcast datagram");
    vassert!(f.custom_broadcast_backlog() == 0 && f.updates_backlog() == 1, "c16: an item leaves the backlog after max_transmissions datagrams; Broadcast consumes no update");
    let mut rt2 = LogRt::new();
    let r2 = f.broadcast(&mut rt2);
    vassert!(r2.is_ok() && rt2.ns == 0, "c16: broadcast() sends nothing when the backlog is empty");
    vcover!(rt.sent[0].dst == b && a.gen != b.gen, "one member served, the other spared");
}

/// Crafted suspicion timer: arbitrary identity (also newer than the record),
/// incarnation and token in any connection state. No panic, Inv preserved.
pub fn c06_timer_crafted_suspect<S: Src>(s: &mut S) {
    let mut f = arb_foca(s, Shape::k(2));
    let pre = snap(&f);
    let member_id = Id::arb(s);
    let incarnation = s.u16();
    let token = s.u8();
    let mut rt = LogRt::new();
    let r = f.handle_timer(crate::Timer::ChangeSuspectToDown { member_id, incarnation, token }, &mut rt);
    vassert!(r.is_ok(), "c06: a crafted suspicion timer is not an error");
    vassert!(!rt.overflow, "c18: bounded effects for a crafted timer");
    vassert!(inv_holds(&f), "c09: representation invariant preserved by a crafted timer");
    vassert!(rt.ns <= 1, "c18: a suspicion timer sends at most one datagram");
    vcover!(token == pre.token && pre.by_addr(member_id.addr).map(|r| member_id.gen > r.0.gen).unwrap_or(false), "timer naming a newer identity than the record");
}

/// `gossip()` on the *real* backlog and the real send buffer (no stubs): one
/// pending update with two transmissions left, one active member. The update is
/// piggybacked verbatim on exactly two datagrams and then leaves the backlog.
pub fn c15_gossip_real<S: Src>(s: &mut S) {
    let mut sh = Shape::k(0);
    sh.probe = false;
    sh.fanout = Some(1);
    let mut f = arb_foca(s, sh);
    let a = Id::new(11, s.u8());
    s.assume(f.identity.addr != 11);
    let mut inner = Vec::with_capacity(4);
    inner.push(crate::Member::new(a, s.u16(), State::Alive));
    f.members = crate::member::Members::verif_raw(inner, 0, 1);
    f.connection_state = ConnectionState::Connected;
    f.broadcast_handler = LogHandler::new(0, 0xFF);
    let g = s.u8();
    let inc = s.u16();
    let mut upd = Vec::with_capacity(MEM);
    upd.extend_from_slice(&[200, g, (inc >> 8) as u8, inc as u8, 1]);
    f.updates.verif_push_raw(crate::Addr(200), upd, 2);
    let mut rt = LogRt::new();
    let r = f.gossip(&mut rt);
    vassert!(r.is_ok() && rt.ns == 1 && rt.sent[0].dst == a, "c15: gossip reaches the active member");
    let d = &rt.sent[0];
    vassert!(rt.tag(0) == 8 && d.len == HDR + 2 + MEM && d.data[HDR] == 0 && d.data[HDR + 1] == 1
        && d.data[HDR + 2] == 200 && d.data[HDR + 3] == g && d.data[HDR + 4] == (inc >> 8) as u8 && d.data[HDR + 5] == inc as u8 && d.data[HDR + 6] == 1,
        "c15: the pending update is piggybacked verbatim behind its count");
    vassert!(f.updates_backlog() == 1 && f.updates.verif_snapshot()[0].0 == 1, "c15: each transmission consumes exactly one from the budget");
    let mut rt2 = LogRt::new();
    let r2 = f.gossip(&mut rt2);
    vassert!(r2.is_ok() && rt2.ns == 1 && rt2.sent[0].len == HDR + 2 + MEM && rt2.sent[0].data[HDR + 1] == 1, "c15: piggybacked until the budget is used up");
    vassert!(f.updates_backlog() == 0, "c15: an update leaves the backlog after exactly max_transmissions datagrams");
    let mut rt3 = LogRt::new();
    let r3 = f.gossip(&mut rt3);
    vassert!(r3.is_ok() && rt3.ns == 1 && rt3.sent[0].len == HDR + 2 && rt3.sent[0].data[HDR + 1] == 0, "c15: piggybacked at most max_transmissions times");
    vcover!(g != 0, "symbolic update content");
}
