//! C07 / C15 / C16 (sender side): every datagram produced by the private
//! `send_message` is well-formed, bounded, and carries exactly what it may.
use super::kit::*;
use super::oracle::*;
use super::state::*;
use crate::{Error, Message, State};

/// Independent grammar parser for the kit's fixed wire format.
/// Returns (ok, n_members, members_end, n_items, items_total_len)
pub struct Parsed {
    pub ok: bool,
    pub has_section: bool,
    pub n_members: usize,
    pub members: [[u8; MEM]; 4],
    pub n_items: usize,
    pub items: [([u8; ITEM], usize); 3],
}

pub fn parse_datagram(d: &[u8; PKT], len: usize, piggybacks: bool, may_items: bool) -> Parsed {
    let mut p = Parsed {
        ok: false,
        has_section: false,
        n_members: 0,
        members: [[0; MEM]; 4],
        n_items: 0,
        items: [([0; ITEM], 0); 3],
    };
    if len < HDR || len > PKT {
        return p;
    }
    // The kit's codec has fixed-size members (5 bytes) and the harness's pending
    // items are 3 bytes (2 + 3 on the wire), so a well-formed datagram has one of
    // finitely many layouts. Enumerating them keeps every index concrete.
    let mut sec = 0;
    while sec < 2 {
        let has_section = sec == 1;
        if !has_section || piggybacks {
            let mut nm = 0;
            while nm < 4 {
                if has_section || nm == 0 {
                    let mut ni = 0;
                    while ni < 3 {
                        let base = HDR + if has_section { 2 } else { 0 };
                        let total = base + MEM * nm + 5 * ni;
                        if total == len && total <= PKT && (ni == 0 || may_items) {
                            let mut good = true;
                            if has_section {
                                if !(d[HDR] == 0 && d[HDR + 1] as usize == nm) {
                                    good = false;
                                }
                            }
                            let mut i = 0;
                            while i < nm {
                                if d[base + MEM * i + 4] > 2 {
                                    good = false; // not a state tag
                                }
                                i += 1;
                            }
                            let ibase = base + MEM * nm;
                            let mut g = 0;
                            while g < ni {
                                if !(d[ibase + 5 * g] == 0 && d[ibase + 5 * g + 1] == 3) {
                                    good = false; // 16-bit length prefix of a 3-byte item
                                }
                                g += 1;
                            }
                            // a count-less datagram must not be mistaken for one with a section
                            if good && !(p.ok) {
                                p.ok = true;
                                p.has_section = has_section;
                                p.n_members = nm;
                                p.n_items = ni;
                                let mut i = 0;
                                while i < nm {
                                    let mut k = 0;
                                    while k < MEM {
                                        p.members[i][k] = d[base + MEM * i + k];
                                        k += 1;
                                    }
                                    i += 1;
                                }
                                let mut g = 0;
                                while g < ni {
                                    p.items[g].0[0] = d[ibase + 5 * g + 2];
                                    p.items[g].0[1] = d[ibase + 5 * g + 3];
                                    p.items[g].0[2] = d[ibase + 5 * g + 4];
                                    p.items[g].1 = 3;
                                    g += 1;
                                }
                            }
                        }
                        ni += 1;
                    }
                }
                nm += 1;
            }
        }
        sec += 1;
    }
    p
}

fn arb_piggyback_msg(s: &mut impl Src) -> Message<Id> {
    let id = Id::arb(s);
    let n = s.u8();
    match s.below(7) {
        0 => Message::Ping(n),
        1 => Message::Ack(n),
        2 => Message::PingReq {
            target: id,
            probe_number: n,
        },
        3 => Message::IndirectPing {
            origin: id,
            probe_number: n,
        },
        4 => Message::IndirectAck {
            target: id,
            probe_number: n,
        },
        5 => Message::ForwardedAck {
            origin: id,
            probe_number: n,
        },
        _ => Message::Gossip,
    }
}

/// kind class: 0 = piggybacking non-Feed kinds, 1 = Feed, 2 = Announce/TurnUndead, 3 = Broadcast
fn send_obligation<S: Src>(s: &mut S, class: u8, pkt: usize, k: usize, backlog: usize, custom: usize, failing: bool) {
    send_obligation_f(s, class, pkt, k, backlog, custom, if failing { Some(2) } else { None })
}
/// `fail_at`: None = codec never fails; Some(0|1) = the n-th bounded encode_member fails
/// after writing 0..=3 stray bytes; Some(2) = which one fails is symbolic
fn send_obligation_f<S: Src>(s: &mut S, class: u8, pkt: usize, k: usize, backlog: usize, custom: usize, fail_at: Option<u8>) {
    let failing = fail_at.is_some();
    let mut sh = Shape::k(k);
    sh.pkt = pkt;
    sh.backlog = backlog;
    sh.custom = custom;
    sh.handler_arb = true;
    sh.probe = false;
    let mut f = arb_foca(s, sh);
    if let Some(n) = fail_at {
        f.codec.fail_member_at = Some(if n < 2 { n } else { s.below(2) });
        f.codec.dirty = s.below(4);
    }
    let _ = failing;
    let pre = snap(&f);
    let dst = Id::arb(s);
    let msg = match class {
        0 => arb_piggyback_msg(s),
        1 => Message::Feed,
        2 => {
            if s.bool() {
                Message::Announce
            } else {
                Message::TurnUndead
            }
        }
        _ => Message::Broadcast,
    };
    let upd_pre = f.updates.verif_snapshot();
    let cus_pre = f.custom_broadcasts.verif_snapshot();
    let allows = f.broadcast_handler.allows(&dst);
    let mut rt = LogRt::new();
    let r = f.send_message(dst, msg.clone(), &mut rt);
    let post = snap(&f);

    if pkt < HDR {
        vassert!(matches!(r, Err(Error::Encode(_))) && rt.is_silent(), "c20: a header that does not fit is an error, nothing is sent");
        vassert!(f.send_buf.capacity() == pkt, "c06: the send buffer survives an encode error");
        return;
    }
    vassert!(r.is_ok(), "c06: send_message succeeds when the header fits");
    vassert!(rt.ns == 1 && rt.nn == 0 && rt.nt == 0, "c07: exactly one datagram is handed to the runtime");
    let sent = &rt.sent[0];
    vassert!(sent.dst == dst, "c07: handed over for the destination identity");
    vassert!(sent.len <= pkt, "c07: every datagram is at most max_packet_size bytes");
    let h = rt.header(0);
    vassert!(h.as_ref().map(|h| h.src == pre.identity && h.src_incarnation == pre.incarnation && h.dst == dst && h.message == msg).unwrap_or(false),
        "c07: header = (current identity, current incarnation, destination, message)");

    let piggybacks = class <= 1;
    let may_items = class != 2;
    let p = parse_datagram(&sent.data, sent.len, piggybacks, may_items);
    vassert!(p.ok, "c07: header, then count + exactly that many members (piggybacking kinds), then length-prefixed non-empty items, and nothing else");
    if class == 2 {
        vassert!(sent.len == HDR, "c07: Announce and TurnUndead carry nothing after the header");
    }
    if class == 3 {
        vassert!(!p.has_section && p.n_members == 0, "c07: Broadcast carries no member section");
    }

    // member section contents
    let mut i = 0;
    while i < 4 {
        if i < p.n_members {
            let m = p.members[i];
            let id = Id::new(m[0], m[1]);
            let inc = ((m[2] as u16) << 8) | m[3] as u16;
            if class == 1 {
                let rec = pre.by_addr(id.addr);
                vassert!(rec.map(|r| r.0 == id && r.1 == inc && r.2 != State::Down && state_tag(r.2) == m[4]).unwrap_or(false),
                    "c07: Feed lists only active members, exactly as stored");
                vassert!(id != dst && id.addr != pre.identity.addr, "c07: Feed never lists the receiver or the sender");
                let mut j = 0;
                while j < i {
                    vassert!(p.members[j][0] != m[0], "c07: Feed lists a member at most once");
                    j += 1;
                }
            } else {
                // must be one of the pending updates, verbatim
                let mut found = false;
                for (_tx, d) in upd_pre.iter() {
                    if d.len() == MEM && d[0] == m[0] && d[1] == m[1] && d[2] == m[2] && d[3] == m[3] && d[4] == m[4] {
                        found = true;
                    }
                }
                vassert!(found, "c15: only pending updates are piggybacked, verbatim");
            }
        }
        i += 1;
    }
    if class == 1 {
        vassert!(post.updates_len == pre.updates_len, "c15: Feed consumes nothing from the update backlog");
    }
    if class >= 2 {
        vassert!(p.n_members == 0 && post.updates_len == pre.updates_len, "c15: Announce, TurnUndead and Broadcast never carry or consume updates");
    }
    if class == 0 && p.has_section {
        // no-omit through the gate: with room left for a pending update, the section is not empty
        let room = pkt - HDR - 2;
        if backlog > 0 && room >= MEM {
            vassert!(p.n_members >= 1, "c15: a piggybacking datagram never omits a pending update that fits");
        }
    }
    if class == 0 {
        vassert!(p.has_section == (pkt - HDR > 2), "c07: the member section is present whenever its count fits");
    }

    // custom items
    if p.n_items > 0 {
        vassert!(may_items && allows, "c16: custom broadcasts only on kinds that may carry them and only to allowed recipients");
    }
    let mut g = 0;
    while g < 3 {
        if g < p.n_items {
            let (b, l) = p.items[g];
            let mut found = false;
            for (_tx, d) in cus_pre.iter() {
                if d.len() == l && l == 3 && d[0] == b[0] && d[1] == b[1] && d[2] == b[2] {
                    found = true;
                }
            }
            vassert!(found, "c16: items are retransmitted byte-for-byte as whole items");
        }
        g += 1;
    }
    if custom > 0 && may_items && allows {
        let used = HDR + if p.has_section { 2 + MEM * p.n_members } else { 0 };
        if pkt >= used + 5 {
            vassert!(p.n_items >= 1, "c16: a pending item that fits is attached when the recipient is allowed");
        }
    }
    if !allows || !may_items {
        vassert!(post.custom_len == pre.custom_len, "c16: nothing is consumed from the custom backlog when items may not be attached");
    }

    vcover!(class != 0 || backlog == 0 || pkt < HDR + 2 + MEM || p.n_members >= 1, "update piggybacked");
    vcover!(custom == 0 || !may_items || pkt < HDR + (if piggybacks { 2 + MEM * backlog } else { 0 }) + 5 || p.n_items >= 1, "custom item attached");

    // nothing else changes
    vassert!(post.same_members(&pre) && post.identity == pre.identity && post.incarnation == pre.incarnation
        && post.conn == pre.conn && post.token == pre.token && post.probe == pre.probe && post.enc_n == pre.enc_n,
        "c17: sending changes no protocol state");
    vassert!(f.send_buf.capacity() == pkt, "c06: the send buffer keeps its capacity");
}

macro_rules! sh {
    ($name:ident, $class:expr, $pkt:expr, $k:expr, $bl:expr, $cu:expr, $fail:expr) => {
        pub fn $name<S: Src>(s: &mut S) {
            send_obligation(s, $class, $pkt, $k, $bl, $cu, $fail)
        }
    };
}

// piggybacking kinds: packet sizes around every boundary (header 10, count 2, member 5, item 2+3)
/// max_packet_size smaller than a header: error, nothing sent, buffer intact
pub fn c07_send_pb_9<S: Src>(s: &mut S) {
    let mut sh = Shape::k(0);
    sh.pkt = 9;
    sh.backlog = 1;
    sh.probe = false;
    let mut f = arb_foca(s, sh);
    let pre = snap(&f);
    let dst = Id::arb(s);
    let msg = arb_piggyback_msg(s);
    let mut rt = LogRt::new();
    let r = f.send_message(dst, msg, &mut rt);
    let post = snap(&f);
    vassert!(matches!(r, Err(Error::Encode(_))) && rt.is_silent(), "c20: a header that does not fit is an error, nothing is sent");
    vassert!(f.send_buf.capacity() == 9, "c06: the send buffer survives an encode error");
    vassert!(post.identical(&pre), "c17: a failed send changes no protocol state");
    vcover!(dst.addr != pre.identity.addr, "foreign destination");
}
sh!(c07_send_pb_10, 0, 10, 0, 1, 1, false);
sh!(c07_send_pb_12, 0, 12, 0, 1, 1, false);
sh!(c07_send_pb_13, 0, 13, 0, 1, 1, false);
sh!(c07_send_pb_16, 0, 16, 0, 1, 1, false);
sh!(c07_send_pb_17, 0, 17, 0, 1, 1, false);
sh!(c07_send_pb_21, 0, 21, 0, 2, 1, false);
sh!(c07_send_pb_22, 0, 22, 0, 2, 1, false);
sh!(c07_send_pb_27, 0, 27, 0, 2, 1, false);
sh!(c07_send_pb_32, 0, 32, 0, 2, 2, false);
// Feed
sh!(c07_send_feed_12, 1, 12, 2, 1, 0, false);
sh!(c07_send_feed_17, 1, 17, 2, 1, 1, false);
sh!(c07_send_feed_22, 1, 22, 3, 1, 1, false);
sh!(c07_send_feed_32, 1, 32, 3, 1, 1, false);
sh!(c07_send_feed_failing, 1, 22, 2, 0, 0, true);
/// the first / the second member of a Feed fails to encode after writing stray bytes
pub fn c07_send_feed_fail_first<S: Src>(s: &mut S) {
    send_obligation_f(s, 1, 22, 2, 0, 0, Some(0))
}
pub fn c07_send_feed_fail_second<S: Src>(s: &mut S) {
    send_obligation_f(s, 1, 22, 2, 0, 0, Some(1))
}
// Announce / TurnUndead / Broadcast
sh!(c07_send_bare_10, 2, 10, 1, 1, 1, false);
sh!(c07_send_bare_32, 2, 32, 1, 1, 1, false);
sh!(c07_send_bcast_14, 3, 14, 1, 1, 1, false);
sh!(c07_send_bcast_15, 3, 15, 1, 1, 1, false);
sh!(c07_send_bcast_32, 3, 32, 1, 1, 2, false);
