//! Symbolic `Foca` pre-states under the representation invariant `Inv`
//! (DESIGN.md §3.4) and snapshots for frame conditions.
use alloc::vec::Vec;
use core::num::{NonZeroU8, NonZeroUsize};
use core::time::Duration;

use super::kit::*;
use crate::{
    broadcast::Broadcasts, member::Members, probe::verif_hook::ProbeView, probe::Probe, Addr,
    Config, ConnectionState, Foca, Identity, Incarnation, Member, PeriodicParams, State,
};

pub type F = Foca<Id, FixCodec, TapeRng, LogHandler>;

pub const D_PERIOD: Duration = Duration::from_secs(7);
pub const D_RTT: Duration = Duration::from_secs(3);
pub const D_SUSPECT: Duration = Duration::from_secs(11);
pub const D_REMOVE: Duration = Duration::from_secs(13);
pub const D_ANNOUNCE: Duration = Duration::from_secs(17);
pub const D_ANNOUNCE_DOWN: Duration = Duration::from_secs(19);
pub const D_GOSSIP: Duration = Duration::from_secs(23);

fn nz(n: usize) -> NonZeroUsize {
    match NonZeroUsize::new(n) {
        Some(v) => v,
        None => NonZeroUsize::MIN,
    }
}

pub fn arb_periodic(s: &mut impl Src, freq: Duration) -> Option<PeriodicParams> {
    if s.bool() {
        let n = 1 + s.below(2) as usize;
        Some(PeriodicParams {
            frequency: freq,
            num_members: nz(n),
        })
    } else {
        None
    }
}

/// Config with every discrete field symbolic; durations are distinct constants
/// (they only label timers), `max_packet_size` is a per-harness constant.
pub fn arb_config(s: &mut impl Src, pkt: usize) -> Config {
    let fanout = 1 + s.below(2) as usize;
    let max_tx = s.u8();
    s.assume(max_tx > 0);
    Config {
        probe_period: D_PERIOD,
        probe_rtt: D_RTT,
        num_indirect_probes: nz(fanout),
        max_transmissions: match NonZeroU8::new(max_tx) {
            Some(v) => v,
            None => NonZeroU8::MIN,
        },
        suspect_to_down_after: D_SUSPECT,
        remove_down_after: D_REMOVE,
        max_packet_size: nz(pkt),
        notify_down_members: s.bool(),
        periodic_announce: arb_periodic(s, D_ANNOUNCE),
        periodic_announce_to_down_members: arb_periodic(s, D_ANNOUNCE_DOWN),
        periodic_gossip: arb_periodic(s, D_GOSSIP),
    }
}

pub fn arb_conn(s: &mut impl Src) -> ConnectionState {
    match s.below(3) {
        0 => ConnectionState::Disconnected,
        1 => ConnectionState::Connected,
        _ => ConnectionState::Undead,
    }
}

/// Knobs for `arb_foca`.
#[derive(Clone, Copy)]
pub struct Shape {
    /// number of membership records
    pub k: usize,
    /// max_packet_size (concrete per instantiation)
    pub pkt: usize,
    /// allow a probe in flight (otherwise probe is idle)
    pub probe: bool,
    /// entries pre-populated in the update backlog (0..=2)
    pub backlog: usize,
    /// entries pre-populated in the custom backlog (0..=2)
    pub custom: usize,
    /// broadcast handler answer mode symbolic (else: accepts)
    pub handler_arb: bool,
    /// helpers already asked in the probe round in flight (concrete: a
    /// symbolic-length Vec makes later pushes intractable)
    pub n_ind: usize,
    /// concrete renew mode of the own identity (None = symbolic)
    pub renew: Option<RenewMode>,
    /// concrete num_indirect_probes (None = symbolic 1..=2)
    pub fanout: Option<usize>,
}

impl Shape {
    pub const fn k(k: usize) -> Self {
        Self {
            k,
            pkt: 32,
            probe: true,
            backlog: 0,
            custom: 0,
            handler_arb: false,
            n_ind: 0,
            renew: None,
            fanout: None,
        }
    }
}

pub fn arb_foca(s: &mut impl Src, sh: Shape) -> F {
    let mut identity = Id::arb(s);
    identity.renew = match sh.renew {
        Some(r) => r,
        None => Id::arb_renew(s),
    };
    let incarnation = s.u16();
    let timer_token = s.u8();
    let connection_state = arb_conn(s);
    let mut config = arb_config(s, sh.pkt);
    if let Some(n) = sh.fanout {
        config.num_indirect_probes = nz(n);
    }

    // --- membership records -------------------------------------------------
    let mut inner: Vec<Member<Id>> = Vec::with_capacity(sh.k + 2);
    let mut num_active = 0usize;
    let mut i = 0;
    while i < sh.k {
        let m = arb_member(s);
        // I1: addresses pairwise distinct
        let mut j = 0;
        while j < i {
            s.assume(inner[j].id().addr != m.id().addr);
            j += 1;
        }
        // I3: a record bearing our own address is Down
        if m.id().addr == identity.addr {
            s.assume(m.state() == State::Down);
        }
        if m.state() != State::Down {
            num_active += 1;
        }
        inner.push(m);
        i += 1;
    }
    // I4: Connected => at least one active member
    if connection_state == ConnectionState::Connected {
        s.assume(num_active > 0);
    }
    // any cursor value
    let cursor = match s.below(3) {
        0 => s.below(5) as usize,
        1 => usize::MAX,
        _ => 0,
    };
    let members = Members::verif_raw(inner, cursor, num_active);

    // --- probe ----------------------------------------------------------------
    let fanout = config.num_indirect_probes.get();
    // concrete capacity: a symbolic-capacity allocation makes every later push intractable
    let mut indirect: Vec<Id> = Vec::with_capacity(4);
    let probe_number = s.u8();
    let view = if sh.probe && connection_state == ConnectionState::Connected && s.bool() {
        let target = arb_member(s);
        // I5
        s.assume(target.id().addr != identity.addr);
        s.assume(target.state() != State::Down);
        let n_ind = sh.n_ind;
        s.assume(n_ind <= fanout);
        let h0 = Id::arb(s);
        let h1 = Id::arb(s);
        if n_ind >= 1 {
            s.assume(h0 != *target.id() && h0.addr != identity.addr);
            indirect.push(h0);
        }
        if n_ind >= 2 {
            s.assume(h1 != *target.id() && h1.addr != identity.addr && h1 != h0);
            indirect.push(h1);
        }
        let reached = s.bool();
        let acks = s.below(3) as usize;
        s.assume(acks + n_ind <= fanout);
        if n_ind > 0 || acks > 0 {
            s.assume(reached);
        }
        ProbeView {
            direct: Some(target),
            indirect,
            probe_number,
            direct_ack_ok: s.bool(),
            indirect_ack_count: acks,
            reached,
        }
    } else {
        ProbeView {
            direct: None,
            indirect,
            probe_number,
            direct_ack_ok: false,
            indirect_ack_count: 0,
            reached: false,
        }
    };
    let probe = Probe::verif_raw(view);

    // --- backlogs ---------------------------------------------------------------
    let mut updates: Broadcasts<Addr<u8>> = Broadcasts::new();
    let mut b = 0;
    while b < sh.backlog {
        // I7: one entry per address: addresses 200+b are pairwise distinct
        let m = Member::new(Id::new(200 + b as u8, s.u8()), s.u16(), arb_state(s));
        let tx = 1 + s.u8() as usize;
        let mut data = Vec::with_capacity(MEM);
        data.extend_from_slice(&[
            m.id().addr,
            m.id().gen,
            (m.incarnation() >> 8) as u8,
            m.incarnation() as u8,
            state_tag(m.state()),
        ]);
        updates.verif_push_raw(Addr(m.id().addr), data, tx);
        b += 1;
    }
    let mut custom_broadcasts: Broadcasts<BKey> = Broadcasts::new();
    let mut c = 0;
    while c < sh.custom {
        let key = BKey {
            k: 100 + c as u8,
            v: s.u8(),
        };
        let tx = 1 + s.u8() as usize;
        let mut data = Vec::with_capacity(3);
        data.extend_from_slice(&[key.k, key.v, s.u8()]);
        custom_broadcasts.verif_push_raw(key, data, tx);
        c += 1;
    }

    let handler = if sh.handler_arb {
        LogHandler::new(s.below(3), s.u8())
    } else {
        LogHandler::new(0, 0xFF)
    };

    Foca {
        identity,
        codec: FixCodec::new(),
        rng: TapeRng::arb(s),
        incarnation,
        config,
        connection_state,
        timer_token,
        members,
        probe,
        // Scratch buffers hold arbitrary leftovers (reachable: a truncated Feed leaves
        // unpopped candidates behind, a decode error leaves decoded updates behind);
        // foca must clear them before every use.
        updates_buf: {
            let mut v = Vec::with_capacity(4);
            v.push(arb_member(s));
            v
        },
        choice_buf: {
            let mut v = Vec::with_capacity(6);
            v.push(arb_member(s));
            v
        },
        // I6 (debug-asserted by foca)
        send_buf: Vec::with_capacity(sh.pkt),
        updates,
        broadcast_handler: handler,
        custom_broadcasts,
    }
}

// ---------------------------------------------------------------------------
// Invariant as a checkable predicate (post-states)
// ---------------------------------------------------------------------------

/// I3 on its own (C09 and C19 both rest on it)
pub fn own_addr_never_active(f: &F) -> bool {
    let mut ok = true;
    for m in f.members.inner.iter() {
        if m.id().addr == f.identity.addr && m.state() != State::Down {
            ok = false;
        }
    }
    ok
}

pub fn inv_holds(f: &F) -> bool {
    let recs = &f.members.inner;
    let n = recs.len();
    let mut ok = true;
    let mut active = 0usize;
    let mut i = 0;
    while i < n {
        let mut j = 0;
        while j < i {
            if recs[j].id().addr == recs[i].id().addr {
                ok = false; // I1
            }
            j += 1;
        }
        if recs[i].id().addr == f.identity.addr && recs[i].state() != State::Down {
            ok = false; // I3
        }
        if recs[i].state() != State::Down {
            active += 1;
        }
        i += 1;
    }
    if active != f.members.num_active() {
        ok = false; // I2
    }
    if f.connection_state == ConnectionState::Connected && active == 0 {
        ok = false; // I4
    }
    let pv = f.probe.verif_view();
    if let Some(d) = &pv.direct {
        if f.connection_state != ConnectionState::Connected || d.id().addr == f.identity.addr {
            ok = false; // I5
        }
    } else if !pv.indirect.is_empty() {
        ok = false;
    }
    let mut a = 0;
    while a < pv.indirect.len() {
        if pv.indirect[a].addr == f.identity.addr {
            ok = false;
        }
        if let Some(d) = &pv.direct {
            if pv.indirect[a] == *d.id() {
                ok = false;
            }
        }
        let mut b = 0;
        while b < a {
            if pv.indirect[a] == pv.indirect[b] {
                ok = false;
            }
            b += 1;
        }
        a += 1;
    }
    if !pv.indirect.is_empty() && !pv.reached {
        ok = false;
    }
    ok
}

// ---------------------------------------------------------------------------
// Snapshots (frame conditions)
// ---------------------------------------------------------------------------

pub const KMAX: usize = 5;

/// Order-insensitive view of everything but scratch buffers and the RNG.
#[derive(Clone, Debug)]
pub struct Snap {
    pub identity: Id,
    pub renew: RenewMode,
    pub incarnation: Incarnation,
    pub token: u8,
    pub conn: ConnectionState,
    pub n: usize,
    pub recs: [(Id, Incarnation, State); KMAX],
    pub num_active: usize,
    pub cursor: usize,
    pub probe: ProbeView<Id>,
    pub rng_pos: usize,
    pub enc_n: usize,
    pub updates_len: usize,
    pub custom_len: usize,
    pub handler_n: usize,
    pub cfg_fanout: usize,
    pub cfg_pkt: usize,
    pub cfg_max_tx: u8,
    pub cfg_notify: bool,
    pub cfg_periodic: (bool, bool, bool),
}

pub fn snap(f: &F) -> Snap {
    let mut recs = [(Id::new(0, 0), 0u16, State::Alive); KMAX];
    let n = f.members.inner.len();
    let mut i = 0;
    while i < KMAX {
        if i < n {
            let m = &f.members.inner[i];
            recs[i] = (*m.id(), m.incarnation(), m.state());
        }
        i += 1;
    }
    Snap {
        identity: f.identity,
        renew: f.identity.renew,
        incarnation: f.incarnation,
        token: f.timer_token,
        conn: f.connection_state,
        n,
        recs,
        num_active: f.members.num_active(),
        cursor: f.members.verif_cursor(),
        probe: f.probe.verif_view(),
        rng_pos: f.rng.pos,
        enc_n: f.codec.log.n,
        updates_len: f.updates.len(),
        custom_len: f.custom_broadcasts.len(),
        handler_n: f.broadcast_handler.n,
        cfg_fanout: f.config.num_indirect_probes.get(),
        cfg_pkt: f.config.max_packet_size.get(),
        cfg_max_tx: f.config.max_transmissions.get(),
        cfg_notify: f.config.notify_down_members,
        cfg_periodic: (
            f.config.periodic_announce.is_some(),
            f.config.periodic_announce_to_down_members.is_some(),
            f.config.periodic_gossip.is_some(),
        ),
    }
}

impl Snap {
    /// record for an address, if any
    pub fn by_addr(&self, addr: u8) -> Option<(Id, Incarnation, State)> {
        let mut r = None;
        let mut i = 0;
        while i < KMAX {
            if i < self.n && self.recs[i].0.addr == addr {
                r = Some(self.recs[i]);
            }
            i += 1;
        }
        r
    }

    /// same membership as a set of records (order ignored)
    pub fn same_members(&self, o: &Snap) -> bool {
        if self.n != o.n || self.num_active != o.num_active {
            return false;
        }
        let mut ok = true;
        let mut i = 0;
        while i < KMAX {
            if i < self.n {
                let (id, inc, st) = self.recs[i];
                match o.by_addr(id.addr) {
                    Some((id2, inc2, st2)) => {
                        if id2 != id || inc2 != inc || st2 != st {
                            ok = false;
                        }
                    }
                    None => ok = false,
                }
            }
            i += 1;
        }
        ok
    }

    /// exact equality of all protocol state (record order and cursor included)
    pub fn identical(&self, o: &Snap) -> bool {
        let mut ok = self.identity == o.identity
            && self.renew == o.renew
            && self.incarnation == o.incarnation
            && self.token == o.token
            && self.conn == o.conn
            && self.n == o.n
            && self.num_active == o.num_active
            && self.cursor == o.cursor
            && self.probe == o.probe
            && self.rng_pos == o.rng_pos
            && self.enc_n == o.enc_n
            && self.updates_len == o.updates_len
            && self.custom_len == o.custom_len
            && self.handler_n == o.handler_n
            && self.cfg_fanout == o.cfg_fanout
            && self.cfg_pkt == o.cfg_pkt
            && self.cfg_max_tx == o.cfg_max_tx
            && self.cfg_notify == o.cfg_notify
            && self.cfg_periodic == o.cfg_periodic;
        let mut i = 0;
        while i < KMAX {
            if i < self.n && self.recs[i] != o.recs[i] {
                ok = false;
            }
            i += 1;
        }
        ok
    }

    pub fn is_active(&self, id: Id) -> bool {
        match self.by_addr(id.addr) {
            Some((i, _, st)) => i == id && st != State::Down,
            None => false,
        }
    }
}

pub fn id_of(f: &F) -> Id {
    *f.identity()
}
