//! C01 (join-semilattice laws on the real `Members::apply`) and C14 (round-robin
//! `Members::next`). No stubs: this is foca's membership code as is.
use alloc::vec::Vec;

use super::kit::{arb_state, rank, Src, TapeRng};
use crate::{member::Members, Identity, Incarnation, Member, State};

/// Identity for the membership-level laws: (address, generation) and nothing
/// else. (The kit's `Id` carries layout ballast that only matters for
/// `Result<_, foca::Error>` and would triple the cost of every `Vec::swap` here.)
#[derive(Clone, Copy, Debug, PartialEq, Eq)]
pub struct Id {
    pub addr: u8,
    pub gen: u8,
}
impl Id {
    pub const fn new(addr: u8, gen: u8) -> Self {
        Self { addr, gen }
    }
}
impl Identity for Id {
    type Addr = u8;
    fn renew(&self) -> Option<Self> {
        None
    }
    fn addr(&self) -> u8 {
        self.addr
    }
    fn win_addr_conflict(&self, adversary: &Self) -> bool {
        self.gen > adversary.gen
    }
}

type Rec = (Id, Incarnation, State);

/// SWIM precedence (same text as `ops_api::spec_apply`, for this identity type)
fn spec_apply(r: Option<Rec>, u: Rec) -> Rec {
    match r {
        None => u,
        Some(r) => {
            if r.0 == u.0 {
                if r.2 != State::Down && rank(u.1, u.2) > rank(r.1, r.2) {
                    u
                } else {
                    r
                }
            } else if u.0.gen > r.0.gen {
                u
            } else {
                r
            }
        }
    }
}

fn rec_of(m: &Member<Id>) -> Rec {
    (*m.id(), m.incarnation(), m.state())
}

fn arb_update_at(s: &mut impl Src, addr: u8) -> Member<Id> {
    let gen = s.u8();
    let inc = s.u16();
    let st = arb_state(s);
    Member::new(Id::new(addr, gen), inc, st)
}

/// membership holding at most one record for `addr` (+ optionally an unrelated one)
fn members_with(base: Option<Member<Id>>, other: Option<Member<Id>>) -> Members<Id> {
    let mut v: Vec<Member<Id>> = Vec::with_capacity(4);
    let mut active = 0;
    if let Some(o) = other {
        if o.state() != State::Down {
            active += 1;
        }
        v.push(o);
    }
    if let Some(b) = base {
        if b.state() != State::Down {
            active += 1;
        }
        v.push(b);
    }
    Members::verif_raw(v, 0, active)
}

fn lookup(m: &Members<Id>, addr: u8) -> Option<Rec> {
    let mut r = None;
    for x in m.inner.iter() {
        if x.id().addr == addr {
            r = Some(rec_of(x));
        }
    }
    r
}

fn count_active(m: &Members<Id>) -> usize {
    m.inner.iter().filter(|x| x.state() != State::Down).count()
}

/// same view: identity and state equal, incarnation equal unless Down
fn agree(a: Option<Rec>, b: Option<Rec>) -> bool {
    match (a, b) {
        (None, None) => true,
        (Some(x), Some(y)) => x.0 == y.0 && x.2 == y.2 && (x.2 == State::Down || x.1 == y.1),
        _ => false,
    }
}

fn arb_base(s: &mut impl Src, addr: u8) -> Option<Member<Id>> {
    if s.bool() {
        Some(arb_update_at(s, addr))
    } else {
        None
    }
}

/// Commutativity: two updates about one address, applied in both orders to the
/// same arbitrary base, give the same view.
pub fn c01_commute<S: Src>(s: &mut S) {
    c01_commute_base(s, true)
}
/// same, starting from no record (the first update is inserted)
pub fn c01_commute_new<S: Src>(s: &mut S) {
    c01_commute_base(s, false)
}
fn c01_commute_base<S: Src>(s: &mut S, known: bool) {
    let addr = s.u8();
    // (case split on a concrete flag: with a symbolic one every `apply` encodes
    // both the lookup and the insertion path)
    let base = if known { Some(arb_update_at(s, addr)) } else { None };
    let u1 = arb_update_at(s, addr);
    let u2 = arb_update_at(s, addr);
    let mut a = members_with(base.clone(), None);
    let mut b = members_with(base.clone(), None);
    let mut rng = TapeRng::arb(s);
    let _ = a.apply(u1.clone(), &mut rng);
    let _ = a.apply(u2.clone(), &mut rng);
    let _ = b.apply(u2.clone(), &mut rng);
    let _ = b.apply(u1.clone(), &mut rng);
    let ra = lookup(&a, addr);
    let rb = lookup(&b, addr);
    vassert!(agree(ra, rb), "c01: the view is the same for every order of delivery (only the incarnation next to Down may differ)");
    vassert!(a.inner.len() == 1 && b.inner.len() == 1, "c09: one record per address");
    vassert!(a.num_active() == count_active(&a) && b.num_active() == count_active(&b), "c08: active count is exact");
    // and equals the join computed by the specification
    let want = spec_apply(Some(spec_apply(base.as_ref().map(rec_of), rec_of(&u1))), rec_of(&u2));
    vassert!(agree(ra, Some(want)), "c01: the view is the join of base and updates in SWIM precedence order");
    vcover!(u1.id() != u2.id(), "conflicting identities");
    vcover!(u1.id() == u2.id() && u1.state() == State::Down && u2.state() != State::Down, "down vs active");
    vcover!(u1.incarnation() == u16::MAX, "max incarnation");
}

/// Idempotence: delivering an update twice equals delivering it once.
pub fn c01_idempotent<S: Src>(s: &mut S) {
    let addr = s.u8();
    let base = arb_base(s, addr);
    let u = arb_update_at(s, addr);
    let mut a = members_with(base, None);
    let mut rng = TapeRng::arb(s);
    let _ = a.apply(u.clone(), &mut rng);
    let once = lookup(&a, addr);
    let n_once = a.num_active();
    let sum = a.apply(u.clone(), &mut rng);
    vassert!(lookup(&a, addr) == once && a.num_active() == n_once && a.inner.len() == 1,
        "c01: re-delivering an update changes nothing");
    vassert!(!sum.apply_successful && !sum.changed_active_set, "c15: a duplicate update is not accepted again (no re-broadcast, no notification)");
    vcover!(once.map(|r| r.0 == *u.id()).unwrap_or(false), "update took effect the first time");
}

/// Monotonicity: a record only moves forward; Down is final; identities only
/// change to conflict winners.
pub fn c01_monotone<S: Src>(s: &mut S) {
    let addr = s.u8();
    let base = arb_update_at(s, addr);
    let u = arb_update_at(s, addr);
    let mut a = members_with(Some(base.clone()), None);
    let mut rng = TapeRng::arb(s);
    let sum = a.apply(u.clone(), &mut rng);
    let before = rec_of(&base);
    let after = match lookup(&a, addr) {
        Some(r) => r,
        None => {
            vassert!(false, "c09: a record never disappears by applying an update");
            return;
        }
    };
    if after.0 == before.0 {
        vassert!(rank(after.1, after.2) >= rank(before.1, before.2), "c01: a record only moves forward in precedence order");
        if before.2 == State::Down {
            vassert!(after == before, "c01: Down is final until the member is forgotten");
        }
        if after != before {
            vassert!(after == rec_of(&u) && *u.id() == before.0, "c10: a record changes only to the update that was delivered (no fabrication)");
        }
    } else {
        vassert!(after.0.gen > before.0.gen && after == rec_of(&u), "c09: an identity is replaced only by a conflict winner, wholesale");
    }
    vassert!(sum.apply_successful == (after != before), "c15: an update is accepted exactly when it changes the record");
    vassert!(sum.changed_active_set == ((after.2 == State::Down) != (before.2 == State::Down)), "c08: active-set change is reported exactly");
    vassert!(a.num_active() == count_active(&a), "c08: active count is exact");
}

/// Frame: an update about one address leaves every other record alone.
pub fn c01_frame<S: Src>(s: &mut S) {
    let addr = s.u8();
    let other_addr = s.u8();
    s.assume(addr != other_addr);
    let base = arb_base(s, addr);
    let other = arb_update_at(s, other_addr);
    let u = arb_update_at(s, addr);
    let mut a = members_with(base.clone(), Some(other.clone()));
    let mut rng = TapeRng::arb(s);
    let _ = a.apply(u, &mut rng);
    vassert!(lookup(&a, other_addr) == Some(rec_of(&other)), "c01: an update about one address leaves other records untouched");
    vassert!(a.inner.len() == 2 && a.num_active() == count_active(&a), "c09: one record per address, exact active count");
    vcover!(base.is_none(), "insertion next to an existing record");
}

/// State exchange: after two instances send each other their record for an
/// address, they agree on it.
pub fn c01_exchange<S: Src>(s: &mut S) {
    let addr = s.u8();
    let x0 = arb_base(s, addr);
    let y0 = arb_base(s, addr);
    let mut x = members_with(x0.clone(), None);
    let mut y = members_with(y0.clone(), None);
    let mut rng = TapeRng::arb(s);
    if let Some(m) = y0.clone() {
        let _ = x.apply(m, &mut rng);
    }
    if let Some(m) = x0.clone() {
        let _ = y.apply(m, &mut rng);
    }
    vassert!(agree(lookup(&x, addr), lookup(&y, addr)), "c01: after exchanging full states in both directions two instances agree on every third-party address");
    vcover!(x0.is_some() && y0.is_some() && x0.as_ref().map(|m| *m.id()) != y0.as_ref().map(|m| *m.id()), "different generations known on each side");
}

// ---------------------------------------------------------------------------
// C14
// ---------------------------------------------------------------------------

fn next_id(m: &mut Members<Id>, rng: &mut TapeRng) -> Option<Rec> {
    m.next(rng).map(rec_of)
}

/// Round-robin: with n active members among `k` records (Down records anywhere,
/// any cursor, any shuffle), 2n-1 consecutive rounds return only active members
/// and every active member at least once.
fn c14_next_k<S: Src>(s: &mut S, k: usize, wide: bool) {
    let mut v: Vec<Member<Id>> = Vec::with_capacity(k);
    let mut n = 0usize;
    let mut i = 0;
    while i < k {
        // addresses = positions (distinct by construction), generations symbolic
        let st = arb_state(s);
        if st != State::Down {
            n += 1;
        }
        v.push(Member::new(Id::new(i as u8, s.u8()), s.u16(), st));
        i += 1;
    }
    s.assume(n >= 1 && n <= 3);
    let cursor = match s.below(3) {
        0 => s.below(6) as usize,
        1 => usize::MAX,
        _ => s.u64() as usize,
    };
    let mut m = Members::verif_raw(v, cursor, n);
    let mut rng = if wide { TapeRng::arb_wide(s) } else { TapeRng::arb(s) };

    // five rounds, straight-line (2n-1 <= 5)
    let r0 = next_id(&mut m, &mut rng);
    let r1 = next_id(&mut m, &mut rng);
    let r2 = next_id(&mut m, &mut rng);
    let r3 = next_id(&mut m, &mut rng);
    let r4 = next_id(&mut m, &mut rng);
    let rounds = [r0, r1, r2, r3, r4];
    let window = 2 * n - 1;
    let mut j = 0;
    while j < 5 {
        match rounds[j] {
            Some(r) => vassert!(r.2 != State::Down, "c14: a probe round never picks a Down member"),
            None => vassert!(false, "c14: with an active member every round picks one"),
        }
        j += 1;
    }
    // every active member shows up within the first 2n-1 rounds
    let mut a = 0;
    while a < k {
        let cur = m.inner.iter().find(|x| x.id().addr == a as u8).map(rec_of);
        if let Some(c) = cur {
            if c.2 != State::Down {
                let mut seen = false;
                let mut j = 0;
                while j < 5 {
                    if j < window {
                        if let Some(r) = rounds[j] {
                            if r.0 == c.0 {
                                seen = true;
                            }
                        }
                    }
                    j += 1;
                }
                vassert!(seen, "c14: every window of 2n-1 consecutive rounds pings each active member at least once");
            }
        }
        a += 1;
    }
    vassert!(m.inner.len() == k && m.num_active() == n, "c14: choosing whom to probe changes no record");
    vcover!(n == 3, "three active members");
    vcover!(n == 2 && k > 2, "down records in between");
}

pub fn c14_next_k3<S: Src>(s: &mut S) {
    c14_next_k(s, 3, true)
}
pub fn c14_next_k4<S: Src>(s: &mut S) {
    c14_next_k(s, 4, true)
}
pub fn c14_next_k5<S: Src>(s: &mut S) {
    c14_next_k(s, 5, false)
}

/// Native-only oracle used to validate the MIR -> SMT translation of
/// `Member::can_change` (engine E4): tape = self state, self incarnation, update
/// incarnation, update state, expected answer.
pub fn e4_can_change<S: Src>(s: &mut S) {
    let st = arb_state(s);
    let inc = s.u16();
    let oinc = s.u16();
    let ost = arb_state(s);
    let expected = s.bool();
    let mut m = Member::new(Id::new(1, 1), inc, st);
    let got = m.change_state(oinc, ost);
    vassert!(got == expected, "e4: SMT encoding of can_change agrees with the real function");
}
