//! Native replay of solver counterexamples against the real foca build.
//!   replay <harness> <hex-tape>
//! Runs the harness body (compiled into foca with `--cfg caio_foca_verif`, no
//! stubs: the real `Broadcasts` code runs) on the byte tape extracted from
//! Kani's concrete playback. Output: one JSON line.
use std::panic;

fn unhex(s: &str) -> Vec<u8> {
    let b = s.as_bytes();
    (0..b.len() / 2)
        .map(|i| u8::from_str_radix(std::str::from_utf8(&b[2 * i..2 * i + 2]).unwrap(), 16).unwrap())
        .collect()
}

fn main() {
    let args: Vec<String> = std::env::args().collect();
    if args.len() == 2 && args[1] == "--list" {
        for h in foca::verif_kani::HARNESSES {
            println!("{h}");
        }
        return;
    }
    let lenient = args.len() == 4 && args[3] == "--lenient";
    if args.len() != 3 && !lenient {
        eprintln!("usage: replay <harness> <hex-tape> [--lenient] | --list");
        std::process::exit(64);
    }
    let name = args[1].clone();
    let tape = unhex(&args[2]);
    panic::set_hook(Box::new(|_| {}));
    let r = panic::catch_unwind(|| foca::verif_kani::run_opts(&name, &tape, lenient));
    let profile = if cfg!(debug_assertions) { "dev" } else { "release" };
    match r {
        Ok(None) => {
            println!("{{\"profile\":\"{profile}\",\"status\":\"unknown-harness\"}}");
            std::process::exit(64);
        }
        Ok(Some(in_domain)) => {
            println!("{{\"profile\":\"{profile}\",\"status\":\"pass\",\"in_domain\":{in_domain}}}");
        }
        Err(e) => {
            let msg = if let Some(s) = e.downcast_ref::<&str>() {
                (*s).to_string()
            } else if let Some(s) = e.downcast_ref::<String>() {
                s.clone()
            } else {
                "panic".to_string()
            };
            let msg = msg.replace('\\', "\\\\").replace('"', "\\\"").replace('\n', " ");
            if msg.starts_with("verif:") {
                println!("{{\"profile\":\"{profile}\",\"status\":\"out-of-domain\",\"message\":\"{msg}\"}}");
                std::process::exit(3);
            }
            println!("{{\"profile\":\"{profile}\",\"status\":\"violated\",\"message\":\"{msg}\"}}");
            std::process::exit(1);
        }
    }
}
