#!/usr/bin/env python3
"""Engine E4: MIR -> SMT-LIB2 for the loop-free `Member::can_change`.

Dumps MIR from /repo's working tree with the nightly toolchain, translates the
function's control-flow DAG into one bit-vector term, and proves with two
solvers (z3 and cvc5; answers must agree, any `(error` is inconclusive) that the
relation it computes is exactly SWIM's precedence order and that the induced
join is commutative, idempotent and monotone for every u16 incarnation.
The translation is validated by pushing sample points through the real function
(native replay of harness `e4_can_change`).

Usage: mir2smt.py [--repo /repo]   -> prints one JSON object, exit 0/1/2
"""
import json, os, re, shutil, subprocess, sys, tempfile, time

VERIF = os.path.dirname(os.path.dirname(os.path.abspath(__file__)))


def dump_mir(repo):
    work = os.path.join(VERIF, ".work", "mir")
    os.makedirs(work, exist_ok=True)
    env = dict(os.environ, CARGO_NET_OFFLINE="true")
    env.pop("RUSTFLAGS", None)
    p = subprocess.run(["cargo", "+nightly", "rustc", "--offline", "--lib", "--target-dir", os.path.join(work, "target"),
                        "--", "-Zunpretty=mir", "-C", "debug-assertions=off", "-C", "overflow-checks=on",
                        # a fresh cfg salt makes cargo re-run rustc (MIR is only printed when it runs) without touching /repo
                        "--cfg", "e4_salt_%d" % int(time.time() * 1000)],
                       cwd=repo, env=env, stdout=subprocess.PIPE, stderr=subprocess.PIPE, text=True, timeout=900)
    if p.returncode != 0:
        return None, p.stderr[-800:]
    return p.stdout, ""


def extract_fn(mir, name):
    m = re.search(r"^fn [^\n]*::%s\(([^)]*)\) -> bool \{\n(.*?)^\}" % re.escape(name), mir, re.S | re.M)
    return (m.group(1), m.group(2)) if m else (None, None)


def state_variants(repo):
    src = open(os.path.join(repo, "src", "member.rs")).read()
    m = re.search(r"pub enum State \{(.*?)\n\}", src, re.S)
    names = [x for x in re.findall(r"^\s*([A-Z]\w*),", m.group(1), re.M)]
    return {n: i for i, n in enumerate(names)}


class Unsupported(Exception):
    pass


def translate(params, body, group="can_change"):
    """-> SMT term (string) over self_state, self_inc, o_inc, o_state (can_change)
    or over `kind` (message-kind predicates)."""
    blocks = {}
    for m in re.finditer(r"^    (bb\d+): \{\n(.*?)^    \}", body, re.S | re.M):
        blocks[m.group(1)] = [l.strip() for l in m.group(2).strip().splitlines() if l.strip()]
    if "bb0" not in blocks:
        raise Unsupported("no bb0")
    # parameter roles from the signature: _1: &Member<T>, _2: u16, _3: State
    if group == "can_change" and not re.match(r"_1: &Member<T>, _2: u16, _3: (member::)?State", params):
        raise Unsupported("signature changed: " + params)
    if group == "gates" and not re.match(r"_1: &Message<T>$", params.strip()):
        raise Unsupported("signature changed: " + params)

    def operand(env, tok):
        tok = tok.strip()
        tok = re.sub(r"^(copy|move) ", "", tok)
        if tok in env:
            return env[tok]
        if tok == "_2" and group == "can_change":
            return "o_inc"
        m = re.match(r"const (\d+)_u16", tok)
        if m:
            return "(_ bv%d 16)" % int(m.group(1))
        raise Unsupported("operand " + tok)

    def rvalue(env, rhs):
        rhs = rhs.rstrip(";")
        if rhs in ("const true", "const false"):
            return rhs.split()[1]
        m = re.match(r"discriminant\(\(\(\*_1\)\.(\d+): (?:member::)?State\)\)", rhs)
        if m:
            return "self_state"
        if rhs == "discriminant(_3)":
            return "o_state"
        if rhs == "discriminant((*_1))" and group == "gates":
            return "kind"
        m = re.match(r"Not\((?:move|copy) (_\d+)\)", rhs)
        if m:
            return "(not %s)" % operand(env, m.group(1))
        m = re.match(r"copy \(\(\*_1\)\.(\d+): u16\)", rhs)
        if m:
            return "self_inc"
        m = re.match(r"(Gt|Ge|Lt|Le|Eq|Ne)\((.*), (.*)\)", rhs)
        if m:
            op = {"Gt": "bvugt", "Ge": "bvuge", "Lt": "bvult", "Le": "bvule", "Eq": "=", "Ne": "distinct"}[m.group(1)]
            return "(%s %s %s)" % (op, operand(env, m.group(2)), operand(env, m.group(3)))
        m = re.match(r"(copy|move) (_\d+)$", rhs)
        if m:
            return operand(env, rhs)
        raise Unsupported("rvalue " + rhs)

    def walk(bb, env, depth=0):
        if depth > 64:
            raise Unsupported("not a DAG")
        env = dict(env)
        for line in blocks[bb]:
            if line == "return;":
                if "_0" not in env:
                    raise Unsupported("return without value")
                return env["_0"]
            if line == "unreachable;":
                return "false"  # dead: guarded by an impossible discriminant
            m = re.match(r"goto -> (bb\d+);", line)
            if m:
                return walk(m.group(1), env, depth + 1)
            m = re.match(r"switchInt\((?:move|copy) (_\d+)\) -> \[(.*)\];", line)
            if m:
                var = env[m.group(1)]
                arms = [a.strip() for a in m.group(2).split(",")]
                other = None
                cases = []
                for a in arms:
                    k, tgt = [x.strip() for x in a.split(":")]
                    if k == "otherwise":
                        other = tgt
                    else:
                        cases.append((int(k), tgt))
                term = walk(other, env, depth + 1) if other else "false"
                for k, tgt in reversed(cases):
                    term = "(ite (= %s (_ bv%d 8)) %s %s)" % (var, k, walk(tgt, env, depth + 1), term)
                return term
            m = re.match(r"(_\d+) = (.*)$", line)
            if m:
                env[m.group(1)] = rvalue(env, m.group(2))
                continue
            if line.startswith("StorageLive") or line.startswith("StorageDead") or line.startswith("debug "):
                continue
            raise Unsupported("statement " + line)
        raise Unsupported("block falls through: " + bb)

    return walk("bb0", {})


PRELUDE = """(set-logic ALL)
(define-fun can_change ((self_state (_ BitVec 8)) (self_inc (_ BitVec 16)) (o_inc (_ BitVec 16)) (o_state (_ BitVec 8))) Bool
  %s)
; SWIM precedence as a number (written from the paper, independent of the code):
; Down outranks everything; otherwise 2*inc (+1 for Suspect), in 17 bits + 1
(define-fun rank ((st (_ BitVec 8)) (inc (_ BitVec 16))) (_ BitVec 18)
  (ite (= st (_ bv%d 8)) #b111111111111111111
       (bvadd (concat #b0 (concat inc #b0)) (ite (= st (_ bv%d 8)) (_ bv1 18) (_ bv0 18)))))
(define-fun valid ((st (_ BitVec 8))) Bool (bvult st (_ bv3 8)))
(define-fun jst ((s (_ BitVec 8)) (i (_ BitVec 16)) (oi (_ BitVec 16)) (os (_ BitVec 8))) (_ BitVec 8) (ite (can_change s i oi os) os s))
(define-fun jin ((s (_ BitVec 8)) (i (_ BitVec 16)) (oi (_ BitVec 16)) (os (_ BitVec 8))) (_ BitVec 16) (ite (can_change s i oi os) oi i))
(declare-const s (_ BitVec 8)) (declare-const i (_ BitVec 16))
(declare-const s1 (_ BitVec 8)) (declare-const i1 (_ BitVec 16))
(declare-const s2 (_ BitVec 8)) (declare-const i2 (_ BitVec 16))
(assert (and (valid s) (valid s1) (valid s2)))
"""

QUERIES = [
    ("precedence: can_change(r,u) <=> r is not Down and rank(u) > rank(r)",
     "(assert (not (= (can_change s i i1 s1) (and (distinct s (_ bv{DOWN} 8)) (bvugt (rank s1 i1) (rank s i))))))"),
    ("down is final", "(assert (and (= s (_ bv{DOWN} 8)) (can_change s i i1 s1)))"),
    ("down overrides everything", "(assert (and (distinct s (_ bv{DOWN} 8)) (= s1 (_ bv{DOWN} 8)) (not (can_change s i i1 s1))))"),
    ("monotone: rank(join(r,u)) >= rank(r)", "(assert (bvult (rank (jst s i i1 s1) (jin s i i1 s1)) (rank s i)))"),
    ("idempotent: join(join(r,u),u) = join(r,u)",
     "(assert (let ((a (jst s i i1 s1)) (b (jin s i i1 s1))) (or (distinct (jst a b i1 s1) a) (distinct (jin a b i1 s1) b))))"),
    ("commutative: join(join(r,u1),u2) ~ join(join(r,u2),u1) (incarnation may differ next to Down)",
     "(assert (let ((a (jst s i i1 s1)) (b (jin s i i1 s1)) (c (jst s i i2 s2)) (d (jin s i i2 s2))) "
     "(let ((x (jst a b i2 s2)) (xi (jin a b i2 s2)) (y (jst c d i1 s1)) (yi (jin c d i1 s1))) "
     "(or (distinct x y) (and (distinct x (_ bv{DOWN} 8)) (distinct xi yi))))))"),
]

SANITY = ("sanity: the encoding is satisfiable in both directions",
          "(assert (and (can_change s i i1 s1) (not (can_change s2 i2 i1 s1))))")


def run_solver(cmd, text):
    t0 = time.time()
    p = subprocess.run(cmd, input=text, stdout=subprocess.PIPE, stderr=subprocess.STDOUT, text=True, timeout=120)
    out = p.stdout.strip()
    if "(error" in out or "error" in out.lower().split("\n")[0:1]:
        return "error", out[:200], time.time() - t0
    first = out.splitlines()[0].strip() if out else "none"
    return first, out[:200], time.time() - t0


def message_variants(repo):
    src = open(os.path.join(repo, "src", "payload.rs")).read()
    m = re.search(r"pub enum Message<T> \{(.*?)\n\}", src, re.S)
    body = re.sub(r"\{[^}]*\}", "", m.group(1))      # struct-like variants
    body = re.sub(r"\([^)]*\)", "", body)            # tuple variants
    body = re.sub(r"//[^\n]*", "", body)
    names = re.findall(r"\b([A-Z]\w*)\s*,", body)
    return {n: i for i, n in enumerate(names)}


# message-kind gates, from the property statements (C07, C15, C16)
GATES = {
    "needs_piggyback": ("carries a member section (count + members): every kind except Announce, TurnUndead, Broadcast",
                        lambda v: v not in ("Announce", "TurnUndead", "Broadcast")),
    "allow_custom_broadcasts": ("may carry custom broadcast items: every kind except Announce and TurnUndead",
                                lambda v: v not in ("Announce", "TurnUndead")),
    "piggyback_only_active": ("lists active members instead of pending updates: Feed only", lambda v: v == "Feed"),
}


def main_gates(repo):
    res = {"engine": "E4 mir2smt", "function": "payload::Message::<T>::{needs_piggyback, allow_custom_broadcasts, piggyback_only_active}",
           "queries": [], "status": "inconclusive"}
    mir, err = dump_mir(repo)
    if mir is None:
        res["detail"] = "MIR dump failed: " + err
        print(json.dumps(res))
        return 2
    try:
        variants = message_variants(repo)
        if len(variants) != 11:
            raise Unsupported("expected 11 message kinds, found %d" % len(variants))
    except (Unsupported, AttributeError) as e:
        res["detail"] = "Message enum not recognised: %s" % e
        print(json.dumps(res))
        return 2
    solvers = [("z3", ["/usr/bin/z3", "-in"]), ("cvc5", ["cvc5", "--lang", "smt2"])]
    bad, inconclusive = [], []
    for fn, (text, want) in GATES.items():
        params, body = extract_fn(mir, fn)
        try:
            if body is None:
                raise Unsupported("not found in MIR")
            term = translate(params, body, "gates")
        except Unsupported as e:
            inconclusive.append("%s: MIR shape not recognised: %s" % (fn, e))
            continue
        table = " ".join("(= (f (_ bv%d 8)) %s)" % (i, "true" if want(v) else "false") for v, i in variants.items())
        prelude = "(set-logic ALL)\n(define-fun f ((kind (_ BitVec 8))) Bool %s)\n" % term
        for qname, q, expect in [("sanity", "(declare-const k (_ BitVec 8)) (assert (f k))", "sat"),
                                 (text, "(assert (not (and %s)))" % table, "unsat")]:
            answers = {}
            for sn, cmd in solvers:
                try:
                    a, raw, dt = run_solver(cmd, prelude + q + "\n(check-sat)\n")
                except (OSError, subprocess.TimeoutExpired) as e:
                    a, dt = "error", 0.0
                answers[sn] = {"answer": a, "s": round(dt, 3)}
            got = set(v["answer"] for v in answers.values())
            ok = got == {expect}
            name = "%s: %s" % (fn, qname)
            res["queries"].append({"name": name, "expect": expect, "answers": answers, "ok": ok, "smt_term": term})
            if not ok:
                (bad if (got <= {"sat", "unsat"} and len(got) == 1) else inconclusive).append(name)
    res["variants"] = variants
    res["violated"] = bad
    res["inconclusive"] = inconclusive
    if bad and not inconclusive:
        res["status"] = "violated"
        print(json.dumps(res))
        return 1
    if inconclusive:
        print(json.dumps(res))
        return 2
    res["status"] = "holds"
    print(json.dumps(res))
    return 0


def main():
    repo = "/repo"
    if "--repo" in sys.argv:
        repo = sys.argv[sys.argv.index("--repo") + 1]
    if "--group" in sys.argv and sys.argv[sys.argv.index("--group") + 1] == "gates":
        return main_gates(repo)
    res = {"engine": "E4 mir2smt", "function": "member::Member::<T>::can_change", "queries": [], "status": "inconclusive"}
    mir, err = dump_mir(repo)
    if mir is None:
        res["detail"] = "MIR dump failed: " + err
        print(json.dumps(res))
        return 2
    params, body = extract_fn(mir, "can_change")
    if body is None:
        res["detail"] = "can_change not found in MIR"
        print(json.dumps(res))
        return 2
    try:
        term = translate(params, body)
        variants = state_variants(repo)
        DOWN, SUSPECT = variants["Down"], variants["Suspect"]
    except (Unsupported, KeyError) as e:
        res["detail"] = "MIR shape not recognised: %s" % e
        print(json.dumps(res))
        return 2
    res["smt_term"] = term
    prelude = PRELUDE % (term, DOWN, SUSPECT)
    solvers = [("z3", ["/usr/bin/z3", "-in"]), ("cvc5", ["cvc5", "--lang", "smt2"])]
    bad, inconclusive = [], []
    for name, q in [SANITY] + QUERIES:
        text = prelude + q.replace("{DOWN}", str(DOWN)) + "\n(check-sat)\n"
        answers = {}
        for sn, cmd in solvers:
            try:
                a, raw, dt = run_solver(cmd, text)
            except (OSError, subprocess.TimeoutExpired) as e:
                a, raw, dt = "error", str(e), 0.0
            answers[sn] = {"answer": a, "s": round(dt, 3)}
        want = "sat" if name.startswith("sanity") else "unsat"
        got = set(v["answer"] for v in answers.values())
        ok = got == {want}
        res["queries"].append({"name": name, "expect": want, "answers": answers, "ok": ok})
        if not ok:
            if got <= {"sat", "unsat"} and len(got) == 1:
                bad.append(name)
            else:
                inconclusive.append(name)
    # validate the translation against the real function on sample points
    samples = []
    exe = os.path.join(VERIF, ".work", "replay", "debug", "foca-verif-replay")
    pts = [(st, inc, oinc, ost) for st in range(3) for ost in range(3)
           for (inc, oinc) in [(0, 0), (0, 1), (1, 0), (5, 5), (65535, 65535), (65534, 65535), (65535, 0), (250, 251)]]
    agree = 0
    if os.path.exists(exe):
        for st, inc, oinc, ost in pts:
            q = prelude + "(assert (= s (_ bv%d 8))) (assert (= i (_ bv%d 16))) (assert (= i1 (_ bv%d 16))) (assert (= s1 (_ bv%d 8)))\n(assert (can_change s i i1 s1))\n(check-sat)\n" % (st, inc, oinc, ost)
            a, _, _ = run_solver(solvers[0][1], q)
            expected = 1 if a == "sat" else 0
            tape = bytes([st, inc & 255, inc >> 8, oinc & 255, oinc >> 8, ost, expected]).hex()
            p = subprocess.run([exe, "e4_can_change", tape], stdout=subprocess.PIPE, stderr=subprocess.PIPE, text=True)
            if '"status":"pass"' in p.stdout:
                agree += 1
            else:
                samples.append({"point": [st, inc, oinc, ost], "smt": expected, "native": p.stdout.strip()[:120]})
        res["translation_validation"] = {"points": len(pts), "agree": agree, "disagreements": samples[:5]}
        if agree != len(pts):
            inconclusive.append("translation disagrees with the real function on %d points" % (len(pts) - agree))
    else:
        res["translation_validation"] = {"points": 0, "agree": 0, "note": "replay binary not built"}
    res["violated"] = bad
    res["inconclusive"] = inconclusive
    if bad and not inconclusive:
        res["status"] = "violated"
        print(json.dumps(res))
        return 1
    if inconclusive:
        print(json.dumps(res))
        return 2
    res["status"] = "holds"
    print(json.dumps(res))
    return 0


if __name__ == "__main__":
    sys.exit(main())
